"""Evidence files: what a run actually covered (schema: /root/.vp/EVIDENCE.schema.json)."""
import json
import os

VERIF = os.path.dirname(os.path.dirname(os.path.abspath(__file__)))


def write(pid, tier, seed, spec, records, violations, problems, wall, build_s):
    decided = [r for r in records if r["status"] in ("PASS", "KNOWN-FINDING")]
    # evaluations: solver-decided obligations = CBMC properties of every decided
    # harness + SMT queries of engine M (each is one (un)sat verdict).
    evaluations = sum(int(r.get("cbmc_properties") or 0) for r in records if r.get("engine") == "kani"
                      and r["status"] in ("PASS", "KNOWN-FINDING", "FAIL"))
    evaluations += sum(int(r.get("smt_queries") or 0) for r in records if r.get("engine") == "mir-smt")
    # distinct_nontrivial: distinct harnesses / query groups that were decided
    # AND are non-vacuous (every kani::cover! satisfiable / every reachability
    # witness sat).  Measured, not a constant.
    nontrivial = 0
    for r in decided:
        cov = r.get("covers")
        if r.get("engine") == "kani":
            if cov is None or cov[0] == cov[1]:
                nontrivial += 1
        else:
            if r.get("witness_ok", True):
                nontrivial += 1
    functions = []
    for r in records:
        for f in r.get("functions") or []:
            if f not in functions:
                functions.append(f)
    samples = []
    for r in records[:6]:
        samples.append({k: r.get(k) for k in ("engine", "harness", "query", "symbolic", "bounds", "status",
                                              "cbmc_properties", "smt_queries", "verification_time_s")
                        if r.get(k) is not None})
    ev = {
        "property_id": pid,
        "tier": tier,
        "seed": seed,
        "level": spec.get("level", "model_checking"),
        "coverage": {
            "evaluations": max(evaluations, len(records)),
            "distinct_nontrivial": nontrivial,
            "rule": ("one evaluation = one solver-decided obligation (a CBMC property of a Kani harness over "
                     "symbolic inputs, or one SMT query over the MIR encoding); a harness/query group counts as "
                     "distinct non-trivial when it was decided (not timeout/oom) and all of its reachability "
                     "witnesses (kani::cover!, sat-witness queries) were satisfiable"),
            "samples": samples,
            "technique": spec.get("technique", ""),
            "functions_encoded": functions,
            "bounds": spec.get("bounds", ""),
            "outside_the_claim": spec.get("outside", ""),
            "queries_discharged": len(decided),
            "queries_total": len(records),
            "solver_time_s": round(sum(float(r.get("solver_time_s") or 0) for r in records), 2),
            "verification_time_s": round(sum(float(r.get("verification_time_s") or 0) for r in records), 2),
            "build_time_s": round(build_s, 1),
            "harnesses": records,
            "inconclusive": problems,
            "exhaustive": False,
        },
        "assumptions": spec.get("assumptions", []),
        "wall_s": round(wall, 1),
        "violations": len(violations),
    }
    evdir = os.environ.get("VERIF_EVIDENCE_DIR", os.path.join(VERIF, "evidence"))
    os.makedirs(evdir, exist_ok=True)
    with open(os.path.join(evdir, pid + ".json"), "w") as f:
        json.dump(ev, f, indent=1)
