"""Engine M, part 1: parse rustc's `-Zunpretty=mir` dump and symbolically execute
loop-free functions into SMT-LIB2 terms over mathematical integers with
explicit range side conditions.

Nothing here is specific to one property.  Unsupported constructs raise
EncodingError -- the caller reports "cannot encode" (exit 2), never a pass.
"""
import copy
import os
import re
import subprocess


class EncodingError(Exception):
    pass


# --------------------------------------------------------------------------
# MIR dump
# --------------------------------------------------------------------------

def dump_mir(repo, workdir):
    """Dump MIR of the msi library crate from `repo`'s current working tree."""
    os.makedirs(workdir, exist_ok=True)
    out = os.path.join(workdir, "msi.mir")
    env = dict(os.environ)
    env.update({"CARGO_NET_OFFLINE": "true", "CARGO_TARGET_DIR": os.path.join(workdir, "target"),
                "CARGO_TERM_COLOR": "never"})
    cmd = ["cargo", "+nightly", "rustc", "--offline", "--lib", "-p", "msi", "--", "-Zunpretty=mir",
           "-C", "debug-assertions=off", "-C", "overflow-checks=on"]
    with open(out, "w") as f, open(os.path.join(workdir, "mir_err.log"), "w") as e:
        p = subprocess.run(cmd, cwd=repo, env=env, stdout=f, stderr=e)
    if p.returncode != 0 or os.path.getsize(out) < 1000:
        raise EncodingError("MIR dump failed: " + open(os.path.join(workdir, "mir_err.log")).read()[-2000:])
    return out


class Fn:
    def __init__(self, name, header, args, ret):
        self.name = name
        self.header = header
        self.args = args          # [(local, type)]
        self.ret = ret
        self.locals = {}          # local -> type
        self.blocks = {}          # bbN -> (stmts [str], terminator str)
        self.text = ""


FN_RE = re.compile(r"^fn (.+?)\((.*)\) -> (.+?) \{$")
FN_UNIT_RE = re.compile(r"^fn (.+?)\((.*)\) \{$")


def split_top(s, sep=","):
    """Split on `sep` at nesting depth 0 of (), [], <>, {} and outside strings."""
    out, depth, cur, i, instr = [], 0, "", 0, False
    while i < len(s):
        c = s[i]
        if instr:
            cur += c
            if c == "\\":
                cur += s[i + 1]
                i += 1
            elif c == '"':
                instr = False
        elif c == '"':
            instr = True
            cur += c
        elif c in "([{":
            depth += 1
            cur += c
        elif c in ")]}":
            depth -= 1
            cur += c
        elif c == "<" and (i + 1 < len(s) and s[i + 1] not in "=< ") and (i > 0 and s[i - 1] != " "):
            depth += 1
            cur += c
        elif c == ">" and depth > 0 and (i > 0 and s[i - 1] not in "-= "):
            depth -= 1
            cur += c
        elif c == sep and depth == 0:
            out.append(cur.strip())
            cur = ""
        else:
            cur += c
        i += 1
    if cur.strip():
        out.append(cur.strip())
    return out


def parse_call(t):
    """`[dest = ]callee(args) -> [return: bbN, unwind ...];` with balanced
    parentheses inside the callee path (e.g. `<Result<(), E> as Try>::branch`)."""
    m = re.fullmatch(r"(.*\)) -> (?:\[return: (bb\d+), unwind[^\]]*\]|unwind [^;]*|\[unwind[^\]]*\]|bb\d+);", t)      # last form: diverging call, unwinding to a cleanup block
    if not m:
        return None
    head, nxt = m.group(1), m.group(2)
    depth = 0
    i = len(head) - 1
    instr = False
    while i >= 0:
        c = head[i]
        if c == '"' and (i == 0 or head[i - 1] != "\\"):
            instr = not instr
        elif not instr:
            if c == ")":
                depth += 1
            elif c == "(":
                depth -= 1
                if depth == 0:
                    break
        i -= 1
    if i < 0:
        return None
    argtxt = head[i + 1:-1]
    pre = head[:i]
    dest = None
    dm = re.match(r"^(_\d+|\([^=]*\)) = (.*)$", pre)
    if dm:
        dest, callee = dm.group(1), dm.group(2)
    else:
        callee = pre
    return dest, callee.strip(), argtxt, nxt


class Mir:
    def __init__(self, path):
        self.fns = {}       # name -> [Fn] (several with same name possible)
        self.consts = {}    # last-segment name -> literal text
        self.const_fns = {}  # last-segment name -> Fn (constants with a MIR body)
        self._path = path
        self._parse(open(path).read())

    def _parse(self, txt):
        lines = txt.split("\n")
        i = 0
        while i < len(lines):
            ln = lines[i]
            m = re.match(r"^const (\S+): (\S+) = const (.+);$", ln)
            if m:
                self.consts[m.group(1).split("::")[-1]] = (m.group(3), m.group(2))
                i += 1
                continue
            cm = re.match(r"^const (\S+): (.+?) = \{$", ln)
            if cm:
                # a constant with a MIR body (e.g. `const MAX: usize = u16::MAX as usize`)
                cname = cm.group(1)
                cfn = Fn(cname, ln, [], cm.group(2))
                cfn.locals["_0"] = cm.group(2)
                j = i + 1
                cur = None
                while j < len(lines) and lines[j] != "}":
                    st = lines[j].strip()
                    lm = re.match(r"^let (?:mut )?(_\d+): (.+);$", st)
                    bm = re.match(r"^(bb\d+)(?: \(cleanup\))?: \{$", st)
                    if lm:
                        cfn.locals[lm.group(1)] = lm.group(2)
                    elif bm:
                        cur = bm.group(1)
                        cfn.blocks[cur] = [[], None, False]
                    elif cur is not None and st == "}":
                        stmts = cfn.blocks[cur][0]
                        if stmts:
                            cfn.blocks[cur][1] = stmts.pop()
                        cur = None
                    elif cur is not None and st and not st.startswith("//"):
                        cfn.blocks[cur][0].append(st)
                    j += 1
                self.const_fns[cname.split("::")[-1]] = cfn
                self.__dict__.setdefault("const_fns_full", {})[cname] = cfn
                i = j + 1
                continue
            m = FN_RE.match(ln) or FN_UNIT_RE.match(ln)
            if m and ln.startswith("fn "):
                name = m.group(1)
                argtxt = m.group(2)
                ret = m.group(3) if m.re is FN_RE else "()"
                args = []
                for a in split_top(argtxt):
                    if ":" in a:
                        l, t = a.split(":", 1)
                        args.append((l.strip(), t.strip()))
                fn = Fn(name, ln, args, ret)
                for l, t in args:
                    fn.locals[l] = t
                fn.locals["_0"] = ret
                j = i + 1
                cur = None
                body = [ln]
                while j < len(lines) and lines[j] != "}":
                    s = lines[j]
                    body.append(s)
                    st = s.strip()
                    lm = re.match(r"^let (?:mut )?(_\d+): (.+);$", st)
                    bm = re.match(r"^(bb\d+)(?: \(cleanup\))?: \{$", st)
                    if lm:
                        fn.locals[lm.group(1)] = lm.group(2)
                    elif bm:
                        cur = bm.group(1)
                        fn.blocks[cur] = [[], None, "(cleanup)" in st]
                    elif cur is not None and st == "}":
                        stmts = fn.blocks[cur][0]
                        if stmts:
                            fn.blocks[cur][1] = stmts.pop()
                        cur = None
                    elif cur is not None and st and not st.startswith("//"):
                        # statements can span lines only for long calls; MIR dump keeps them on one line
                        fn.blocks[cur][0].append(st)
                    j += 1
                fn.text = "\n".join(body + ["}"])
                self.fns.setdefault(name, []).append(fn)
                i = j + 1
                continue
            i += 1

    def find(self, pattern, must=True):
        """Unique function whose name matches the regex `pattern`."""
        hits = [f for n, fs in self.fns.items() if re.search(pattern, n) for f in fs]
        # ignore duplicates of enum constructor shims
        if len(hits) > 1:
            exact = [f for f in hits if re.fullmatch(pattern, f.name)]
            if len(exact) >= 1:
                hits = exact[:1] if all(e.text == exact[0].text for e in exact) else exact
        if len(hits) != 1:
            if not must and not hits:
                return None
            raise EncodingError("expected exactly one MIR function matching %r, found %d: %s"
                                % (pattern, len(hits), [h.name for h in hits][:5]))
        return hits[0]


# --------------------------------------------------------------------------
# symbolic values
# --------------------------------------------------------------------------

INT_RANGES = {
    "u8": (0, 2**8 - 1), "u16": (0, 2**16 - 1), "u32": (0, 2**32 - 1), "u64": (0, 2**64 - 1),
    "usize": (0, 2**64 - 1), "u128": (0, 2**128 - 1),
    "i8": (-2**7, 2**7 - 1), "i16": (-2**15, 2**15 - 1), "i32": (-2**31, 2**31 - 1),
    "i64": (-2**63, 2**63 - 1), "isize": (-2**63, 2**63 - 1), "i128": (-2**127, 2**127 - 1),
    "char": (0, 0x10FFFF),
}


def lit(n):
    return str(n) if n >= 0 else "(- %d)" % (-n)


class V:
    """A symbolic value."""
    pass


class IntV(V):
    def __init__(self, term, ty, const=None):
        self.term = term
        self.ty = ty
        self.const = const      # python int when the value is a literal

    def __repr__(self):
        return "Int[%s](%s)" % (self.ty, self.term)


class BoolV(V):
    def __init__(self, term, const=None):
        self.term = term
        self.const = const

    def __repr__(self):
        return "Bool(%s)" % self.term


class StrV(V):
    def __init__(self, s):
        self.s = s

    def __repr__(self):
        return "Str(%r)" % self.s


class TupleV(V):
    def __init__(self, fields):
        self.fields = list(fields)

    def __repr__(self):
        return "Tuple%r" % (self.fields,)


class EnumV(V):
    """Enum value with CONCRETE variant index/name (payload in fields) or a
    symbolic discriminant (discr: IntV, no payload access possible)."""

    def __init__(self, variant=None, fields=None, discr=None, ty=None, by_discr=None):
        self.variant = variant
        self.fields = list(fields or [])
        self.discr = discr
        self.ty = ty
        self.by_discr = by_discr   # {discr_int: EnumV} -- symbolic choice among concrete variants

    def __repr__(self):
        return "Enum(%r,%r,%r)" % (self.variant, self.fields, self.discr)


class RefV(V):
    def __init__(self, target):
        self.target = target

    def __repr__(self):
        return "&%r" % (self.target,)


class ObjV(V):
    """Reference to a mutable heap object (Exec.heap[oid] = list of field values)."""

    def __init__(self, oid):
        self.oid = oid

    def __repr__(self):
        return "Obj#%s" % self.oid


class LocV(V):
    """A reference to one field of a heap object (`&mut obj.k`)."""

    def __init__(self, oid, k):
        self.oid = oid
        self.k = k

    def __repr__(self):
        return "&Obj#%s.%d" % (self.oid, self.k)


class OpaqueV(V):
    def __init__(self, what):
        self.what = what

    def __repr__(self):
        return "Opaque(%s)" % self.what


def mk_int(n, ty):
    return IntV(lit(n), ty, n)


def mk_bool(b):
    return BoolV("true" if b else "false", b)


class Ctx:
    """Declarations + helpers for one SMT script."""

    def __init__(self):
        self.decls = []
        self.side = []      # global side conditions (ranges of declared vars)
        self.n = 0

    def fresh_int(self, name, ty=None, lo=None, hi=None):
        self.n += 1
        v = "%s!%d" % (re.sub(r"[^A-Za-z0-9_]", "_", name), self.n)
        self.decls.append("(declare-const %s Int)" % v)
        if ty in INT_RANGES:
            lo, hi = INT_RANGES[ty]
        if lo is not None:
            self.side.append("(<= %s %s)" % (lit(lo), v))
        if hi is not None:
            self.side.append("(<= %s %s)" % (v, lit(hi)))
        return IntV(v, ty or "Int")

    def fresh_bool(self, name):
        self.n += 1
        v = "%s!%d" % (re.sub(r"[^A-Za-z0-9_]", "_", name), self.n)
        self.decls.append("(declare-const %s Bool)" % v)
        return BoolV(v)


def s_and(ts):
    ts = [t for t in ts if t != "true"]
    if not ts:
        return "true"
    if len(ts) == 1:
        return ts[0]
    return "(and %s)" % " ".join(ts)


def s_or(ts):
    ts = [t for t in ts if t != "false"]
    if not ts:
        return "false"
    if len(ts) == 1:
        return ts[0]
    return "(or %s)" % " ".join(ts)


def s_not(t):
    if t == "true":
        return "false"
    if t == "false":
        return "true"
    return "(not %s)" % t


ENUM_INDEX_Q = {}      # "Enum::Variant" -> declaration index, filled from the crate's sources by mir_engine (fieldless and data enums alike)


def wrap(term, ty):
    """Reduce a mathematical integer term into the range of machine type ty."""
    lo, hi = INT_RANGES[ty]
    mod = hi - lo + 1
    if lo == 0:
        return "(mod %s %d)" % (term, mod)
    return "(- (mod (+ %s %d) %d) %d)" % (term, -lo, mod, -lo)


# --------------------------------------------------------------------------
# symbolic execution
# --------------------------------------------------------------------------

class Outcome:
    heap = None

    def __init__(self, kind, pc, value=None, msg=None, events=None, trace=None):
        self.kind = kind      # "return" | "panic" | "unreachable"
        self.pc = pc          # list of SMT bool terms
        self.value = value
        self.msg = msg
        self.events = events or []
        self.trace = trace or []


class Exec:
    def __init__(self, mir, ctx, models=None, max_paths=4000, inline=None, stop_at=None, havoc_unknown=False):
        self.mir = mir
        self.ctx = ctx
        self.models = models or []     # [(regex, fn(ex, callee, args, pc, events) -> [(cond_terms, value|Panic)])]
        self.max_paths = max_paths
        self.inline = inline or []     # regexes of crate functions to inline
        self.paths = 0
        self.stop_at = stop_at         # optional predicate(fn, bb, terminator) -> bool : stop path here
        self.heap = {}                 # oid -> [field values]; snapshot on forks, recorded in every Outcome
        self.max_revisit = 1           # > 1: bounded loop unrolling (a block may occur that often on one path)
        self.havoc_unknown = havoc_unknown   # unknown EXTERNAL calls: event + arbitrary result of the declared type
        self.havoc_n = 0
        self.no_inline = []            # regexes of crate functions that are havoc'd instead of inlined

    def new_obj(self, oid, fields):
        self.heap[oid] = list(fields)
        return ObjV(oid)

    def load(self, v):
        """Follow references down to a value (heap locations are read)."""
        while True:
            if isinstance(v, RefV):
                v = v.target
            elif isinstance(v, LocV):
                v = self.heap[v.oid][v.k]
            else:
                return v

    def store(self, loc, val):
        if isinstance(loc, LocV):
            self.heap[loc.oid][loc.k] = val
        else:
            raise EncodingError("store through %r" % (loc,))

    # ---- operand / place parsing -------------------------------------
    def const_value(self, txt, fn):
        txt = txt.strip()
        m = re.fullmatch(r"(-?\d+)_([iu](?:8|16|32|64|128|size))", txt)
        if m:
            return mk_int(int(m.group(1)), m.group(2))
        if txt in ("true", "false"):
            return mk_bool(txt == "true")
        mch = re.fullmatch(r"'(\\u\{([0-9a-fA-F]+)\}|\\.|[^\\])'", txt)
        if mch:
            body = mch.group(1)
            if mch.group(2):
                cp = int(mch.group(2), 16)
            elif body.startswith("\\"):
                cp = {"n": 10, "r": 13, "t": 9, "0": 0, "\\": 92, "'": 39, '"': 34}.get(body[1], ord(body[1]))
            else:
                cp = ord(body)
            return mk_int(cp, "char")
        if txt.startswith('"'):
            raw = txt[1:txt.rindex('"')]
            raw = re.sub(r"\\u\{([0-9a-fA-F]+)\}", lambda mm: chr(int(mm.group(1), 16)), raw)
            try:
                return StrV(bytes(raw, "utf-8").decode("unicode_escape") if "\\" in raw else raw)
            except Exception:
                return StrV(raw)
        if txt == "()":
            return TupleV([])
        last = txt.split("::")[-1]
        if last in self.mir.consts and re.fullmatch(r"[A-Z0-9_]+", last):
            t, ty = self.mir.consts[last]
            return self.const_value(t, fn)
        mstd = re.fullmatch(r"core::num::<impl ([iu](?:8|16|32|64|128|size))>::(MAX|MIN)", txt)
        if mstd:
            lo, hi = INT_RANGES[mstd.group(1)]
            return mk_int(hi if mstd.group(2) == "MAX" else lo, mstd.group(1))
        if last in self.mir.const_fns and re.fullmatch(r"[A-Z0-9_]+", last):
            outs = self.run(self.mir.const_fns[last], [], [], [], 1)
            rets = [o for o in outs if o.kind == "return"]
            if len(rets) == 1:
                return rets[0].value
        for rx, f in self.models:
            if rx.startswith("const:") and re.search(rx[6:], txt):
                return f(self, txt)
        mp = re.search(r"promoted\[(\d+)\]$", txt)
        if mp:
            # a promoted constant of the function being executed: run its MIR body
            cfn = getattr(self.mir, "const_fns_full", {}).get("%s::promoted[%s]" % (fn.name, mp.group(1)))
            if cfn is not None:
                saved = copy.deepcopy(self.heap)
                outs = self.run(cfn, [], [], [], 1)
                self.heap = saved
                rets = [o for o in outs if o.kind == "return"]
                if len(rets) == 1:
                    return rets[0].value
        return OpaqueV("const " + txt)

    def read_place(self, p, env, fn):
        p = p.strip()
        if re.fullmatch(r"_\d+", p):
            if p not in env:
                raise EncodingError("read of unassigned local %s in %s" % (p, fn.name))
            return env[p]
        if p.startswith("(") and p.endswith(")"):
            inner = p[1:-1].strip()
            if inner.startswith("*"):
                v = self.read_place(inner[1:], env, fn)
                if isinstance(v, RefV):
                    return v.target
                if isinstance(v, LocV):
                    return self.heap[v.oid][v.k]
                return v
            # (_N as Variant)  or (place.k: T)
            m = re.fullmatch(r"(.+) as (\w+)", inner)
            if m and not re.search(r"\.\d+: ", inner[len(m.group(1)):]):
                v = self.read_place(m.group(1), env, fn)
                return ("downcast", v, m.group(2))
            # field projection: find last ".k: T" at top level
            m = re.fullmatch(r"(.+)\.(\d+): (.+)", inner)
            if m:
                base = self.read_place(m.group(1), env, fn)
                k = int(m.group(2))
                if isinstance(base, tuple) and base[0] == "downcast":
                    ev = base[1]
                    if isinstance(ev, RefV):
                        ev = ev.target
                    if isinstance(ev, OpaqueV) and self.havoc_unknown:
                        return OpaqueV("%s.%s.%d" % (ev.what, base[2], k))
                    if not isinstance(ev, EnumV) or ev.variant is None:
                        raise EncodingError("payload access on enum with symbolic variant in %s: %s" % (fn.name, p))
                    return ev.fields[k]
                if isinstance(base, RefV):
                    base = base.target
                if isinstance(base, LocV):
                    base = self.heap[base.oid][base.k]
                if isinstance(base, ObjV):
                    return self.heap[base.oid][k]
                if isinstance(base, TupleV):
                    return base.fields[k]
                if isinstance(base, EnumV) and base.variant is not None:
                    return base.fields[k]
                if isinstance(base, (IntV, BoolV)) and k == 0:
                    return base      # newtype struct around a scalar
                if isinstance(base, OpaqueV) and self.havoc_unknown:
                    return OpaqueV("%s.%d" % (base.what, k))
                raise EncodingError("field projection on %r in %s: %s" % (base, fn.name, p))
        raise EncodingError("cannot parse place %r in %s" % (p, fn.name))

    def operand(self, o, env, fn):
        o = o.strip()
        if o.startswith("no_retag "):
            o = o[len("no_retag "):]
        if o.startswith("copy "):
            return self.read_place(o[5:], env, fn)
        if o.startswith("move "):
            return self.read_place(o[5:], env, fn)
        if o.startswith("const "):
            return self.const_value(o[6:], fn)
        if re.fullmatch(r"[A-Za-z_<][\w:<>, &'()\[\]]*", o) and not re.match(r"^(copy|move|const)\b", o):
            return OpaqueV("fn item " + o)       # a function item passed as an argument
        raise EncodingError("cannot parse operand %r in %s" % (o, fn.name))

    # ---- rvalues -------------------------------------------------------
    def binop(self, op, a, b, fn):
        if isinstance(a, RefV):
            a = a.target
        if isinstance(b, RefV):
            b = b.target
        if isinstance(a, BoolV) and isinstance(b, BoolV):
            if op == "Eq":
                return BoolV("(= %s %s)" % (a.term, b.term))
            if op == "Ne":
                return BoolV("(not (= %s %s))" % (a.term, b.term))
            if op == "BitAnd":
                return BoolV("(and %s %s)" % (a.term, b.term))
            if op == "BitOr":
                return BoolV("(or %s %s)" % (a.term, b.term))
        if not (isinstance(a, IntV) and isinstance(b, IntV)):
            if getattr(self, "havoc_unknown", False) and (isinstance(a, OpaqueV) or isinstance(b, OpaqueV)):
                # an opaque scalar operand: one arbitrary integer per identity (see switchInt)
                memo = self.__dict__.setdefault("_opaque_ints", {})

                def as_int(v, other):
                    if isinstance(v, OpaqueV):
                        if v.what not in memo:
                            memo[v.what] = self.ctx.fresh_int("opaque_scalar", other.ty if isinstance(other, IntV) else "i64")
                        return memo[v.what]
                    return v
                a2, b2 = as_int(a, b), as_int(b, a)
                if isinstance(a2, IntV) and isinstance(b2, IntV):
                    return self.binop(op, a2, b2, fn)
            raise EncodingError("binop %s on %r, %r in %s" % (op, a, b, fn.name))
        ty = a.ty
        cmp_ops = {"Eq": "=", "Lt": "<", "Le": "<=", "Gt": ">", "Ge": ">="}
        if op in cmp_ops:
            if a.const is not None and b.const is not None:
                return mk_bool({"Eq": a.const == b.const, "Lt": a.const < b.const, "Le": a.const <= b.const,
                                "Gt": a.const > b.const, "Ge": a.const >= b.const}[op])
            return BoolV("(%s %s %s)" % (cmp_ops[op], a.term, b.term))
        if op == "Ne":
            if a.const is not None and b.const is not None:
                return mk_bool(a.const != b.const)
            return BoolV("(not (= %s %s))" % (a.term, b.term))
        arith = {"Add": "+", "Sub": "-", "Mul": "*"}
        base = op.replace("WithOverflow", "").replace("Unchecked", "")
        if base in arith:
            if base == "Mul" and a.const is None and b.const is None:
                raise EncodingError("symbolic * symbolic in %s (non-linear; not encoded)" % fn.name)
            if a.const is not None and b.const is not None:
                exact_c = {"Add": a.const + b.const, "Sub": a.const - b.const, "Mul": a.const * b.const}[base]
                exact = lit(exact_c)
            else:
                exact_c = None
                exact = "(%s %s %s)" % (arith[base], a.term, b.term)
            lo, hi = INT_RANGES[ty]
            if op.endswith("WithOverflow"):
                if exact_c is not None:
                    ov = mk_bool(exact_c < lo or exact_c > hi)
                    w = mk_int((exact_c - lo) % (hi - lo + 1) + lo, ty)
                else:
                    ov = BoolV("(or (< %s %s) (> %s %s))" % (exact, lit(lo), exact, lit(hi)))
                    w = IntV(wrap(exact, ty), ty)
                return TupleV([w, ov])
            # plain Add/Sub/Mul in MIR (overflow-checks=on emits WithOverflow + assert; plain = wrapping)
            if exact_c is not None:
                return mk_int((exact_c - lo) % (hi - lo + 1) + lo, ty)
            return IntV(wrap(exact, ty), ty)
        if op in ("Div", "Rem"):
            if b.const is None:
                # symbolic divisor: SMT-LIB div/mod are total; caller guards zero via the MIR assert
                pass
            lo, _hi = INT_RANGES[ty]
            if lo == 0:
                f = "div" if op == "Div" else "mod"
                if a.const is not None and b.const is not None and b.const != 0:
                    return mk_int(a.const // b.const if op == "Div" else a.const % b.const, ty)
                return IntV("(%s %s %s)" % (f, a.term, b.term), ty)
            # signed: truncated division
            q = "(ite (>= %s 0) (ite (> %s 0) (div %s %s) (- (div %s (- %s)))) (ite (> %s 0) (- (div (- %s) %s)) (div (- %s) (- %s))))" % (
                a.term, b.term, a.term, b.term, a.term, b.term, b.term, a.term, b.term, a.term, b.term)
            if op == "Div":
                return IntV(q, ty)
            return IntV("(- %s (* %s %s))" % (a.term, b.term, q), ty) if b.const is not None else IntV(
                "(- %s (* %s %s))" % (a.term, q, b.term), ty)
        lo_, hi_ = INT_RANGES[ty]
        if lo_ == 0 and b.const is not None:
            # unsigned operand, constant right-hand side: shifts and low-bit masks as arithmetic
            if op in ("Shl", "ShlUnchecked") and 0 <= b.const < 64:
                if a.const is not None:
                    return mk_int((a.const << b.const) % (hi_ + 1), ty)
                return IntV(wrap("(* %s %d)" % (a.term, 1 << b.const), ty), ty)
            if op in ("Shr", "ShrUnchecked") and 0 <= b.const < 64:
                if a.const is not None:
                    return mk_int(a.const >> b.const, ty)
                return IntV("(div %s %d)" % (a.term, 1 << b.const), ty)
            if op == "BitAnd" and b.const >= 0 and (b.const & (b.const + 1)) == 0:
                if a.const is not None:
                    return mk_int(a.const & b.const, ty)
                return IntV("(mod %s %d)" % (a.term, b.const + 1), ty)
        if getattr(self, "havoc_unknown", False) and op in ("BitOr", "BitXor", "BitAnd", "Shl", "Shr", "ShlUnchecked", "ShrUnchecked"):
            # a bit operation this (integer) encoding has no exact term for: an arbitrary value of the result type
            return self.ctx.fresh_int("bitop", ty if ty in INT_RANGES else None)
        raise EncodingError("unsupported binop %s in %s" % (op, fn.name))

    def cast(self, v, ty, fn):
        if isinstance(v, BoolV):
            return IntV("(ite %s 1 0)" % v.term, ty, None if v.const is None else int(v.const))
        if not isinstance(v, IntV) or ty not in INT_RANGES:
            if isinstance(v, EnumV) and v.discr is not None:
                return IntV(v.discr.term, ty, v.discr.const)
            if isinstance(v, OpaqueV) and getattr(self, "havoc_unknown", False) and ty in INT_RANGES:
                memo = self.__dict__.setdefault("_opaque_ints", {})
                if v.what not in memo:
                    memo[v.what] = self.ctx.fresh_int("opaque_scalar", ty)
                return self.cast(memo[v.what], ty, fn) if memo[v.what].ty != ty else memo[v.what]
            raise EncodingError("cast of %r to %s in %s" % (v, ty, fn.name))
        lo, hi = INT_RANGES[ty]
        if v.const is not None:
            return mk_int((v.const - lo) % (hi - lo + 1) + lo, ty)
        slo, shi = INT_RANGES.get(v.ty, (None, None))
        if slo is not None and slo >= lo and shi <= hi:
            return IntV(v.term, ty)          # widening: value preserved
        return IntV(wrap(v.term, ty), ty)    # truncation / sign change: wraps

    def rvalue(self, r, env, fn):
        r = r.strip()
        m = re.fullmatch(r"(\w+)\((.*)\)", r)
        if m and m.group(1) in ("Eq", "Ne", "Lt", "Le", "Gt", "Ge", "Add", "Sub", "Mul", "Div", "Rem", "BitAnd", "BitOr",
                                "BitXor", "Shl", "Shr", "AddWithOverflow", "SubWithOverflow", "MulWithOverflow",
                                "AddUnchecked", "SubUnchecked", "MulUnchecked"):
            a, b = split_top(m.group(2))
            return self.binop(m.group(1), self.operand(a, env, fn), self.operand(b, env, fn), fn)
        if m and m.group(1) == "Not":
            v = self.operand(m.group(2), env, fn)
            if isinstance(v, BoolV):
                return BoolV(s_not(v.term), None if v.const is None else (not v.const))
            raise EncodingError("Not on %r" % (v,))
        if m and m.group(1) == "PtrMetadata":
            v = self.operand(m.group(2), env, fn)
            key = "len:" + repr(self.load(v))
            if not hasattr(self, "_memo"):
                self._memo = {}
            if key not in self._memo:
                self._memo[key] = self.ctx.fresh_int("slice_len", "usize")
            return self._memo[key]
        if m and m.group(1) == "discriminant":
            v = self.read_place(m.group(2), env, fn)
            if isinstance(v, RefV):
                v = v.target
            if isinstance(v, EnumV):
                if v.discr is not None:
                    return v.discr
                if isinstance(v.variant, int):
                    return mk_int(v.variant, "isize")
                if v.variant in getattr(self, "enum_index", {}):
                    return mk_int(self.enum_index[v.variant], "isize")
                if isinstance(v.variant, str) and v.ty:
                    segs = re.sub(r"::<[^<>]*>", "", v.ty).split("::")
                    qn = "::".join(segs[-2:]) if len(segs) >= 2 else None
                    if qn in ENUM_INDEX_Q:
                        return mk_int(ENUM_INDEX_Q[qn], "isize")
                if v.variant in ("None", "Ok", "Continue"):
                    return mk_int(0, "isize")
                if v.variant in ("Some", "Err", "Break"):
                    return mk_int(1, "isize")
            if isinstance(v, LocV):
                v = self.heap[v.oid][v.k]
            if isinstance(v, OpaqueV) and self.havoc_unknown:
                # an opaque object's variant is arbitrary (memoised per object)
                if not hasattr(self, "_memo"):
                    self._memo = {}
                key = "discr:" + v.what
                if key not in self._memo:
                    self._memo[key] = self.ctx.fresh_int("discr", "isize")
                return self._memo[key]
            raise EncodingError("discriminant of %r in %s" % (v, fn.name))
        m2 = re.fullmatch(r"(.+) as (.+?) \((\w+)(?:\(.*\))?\)", r)
        if m2:
            v = self.operand(m2.group(1), env, fn)
            if m2.group(3) == "IntToInt":
                return self.cast(v, m2.group(2), fn)
            if m2.group(3) in ("PointerCoercion", "Transmute") or "Pointer" in m2.group(3):
                return v
            raise EncodingError("cast kind %s in %s" % (m2.group(3), fn.name))
        if r.startswith("&"):
            p = re.sub(r"^&(?:mut |raw (?:const|mut) )?", "", r).strip()
            mloc = re.fullmatch(r"\((.+)\.(\d+): (.+)\)", p)
            if mloc:
                try:
                    base = self.read_place(mloc.group(1), env, fn)
                except EncodingError:
                    base = None
                if isinstance(base, RefV):
                    base = base.target
                if isinstance(base, LocV):
                    base = self.heap[base.oid][base.k]
                if isinstance(base, ObjV):
                    return LocV(base.oid, int(mloc.group(2)))
            return RefV(self.read_place(p, env, fn))
        if r.startswith(("copy ", "move ", "const ", "no_retag ")):
            return self.operand(r, env, fn)
        if r.startswith("(") and r.endswith(")"):
            return TupleV([self.operand(x, env, fn) for x in split_top(r[1:-1])])
        if r.startswith("[") and r.endswith("]"):
            return TupleV([self.operand(x, env, fn) for x in split_top(r[1:-1])])
        if r.startswith("{closure@"):
            # `{closure@span} { captured: operand, .. }`: the captured values in order (field k of the closure environment)
            mcl = re.match(r"^\{closure@[^}]*\}\s*\{(.*)\}\s*$", r, re.S)
            if mcl and mcl.group(1).strip():
                try:
                    fields = []
                    for x in split_top(mcl.group(1)):
                        x = x.strip()
                        if not x:
                            continue
                        fields.append(self.operand(x.split(":", 1)[1].strip(), env, fn))
                    return TupleV(fields)
                except (EncodingError, IndexError):
                    pass
            return OpaqueV("closure")
        # aggregate: Path::Variant(args) / Path { f: v, .. } / unit variant
        if r.endswith(")"):
            depth, i = 0, len(r) - 1
            while i >= 0:
                if r[i] == ")":
                    depth += 1
                elif r[i] == "(":
                    depth -= 1
                    if depth == 0:
                        break
                i -= 1
            if i > 0 and re.search(r"[\w>]$", r[:i]):
                args = [self.operand(x, env, fn) for x in split_top(r[i + 1:-1])] if r[i + 1:-1].strip() else []
                path = r[:i]
                return EnumV(variant=path.split("::")[-1], fields=args, ty=path)
        if r.endswith("}") and " {" in r:
            i = r.index(" {")
            args = []
            for x in split_top(r[i + 2:-1]):
                if ":" in x:
                    args.append(self.operand(x.split(":", 1)[1], env, fn))
            return EnumV(variant=r[:i].split("::")[-1], fields=args, ty=r[:i])
        if re.fullmatch(r"[\w:<>, ()&']+", r):
            return EnumV(variant=r.split("::")[-1], fields=[], ty=r)
        raise EncodingError("cannot parse rvalue %r in %s" % (r, fn.name))

    # ---- execution -----------------------------------------------------
    def run(self, fn, args, pc=None, events=None, depth=0):
        """Yield Outcome objects for every path through `fn`."""
        if depth > 12:
            raise EncodingError("inlining depth exceeded at %s" % fn.name)
        if len(args) != len(fn.args):
            raise EncodingError("arity mismatch calling %s" % fn.name)
        env = {}
        for (l, _t), v in zip(fn.args, args):
            env[l] = v
        out = []
        self._walk(fn, "bb0", env, list(pc or []), list(events or []), out, depth, [])
        return out

    def _emit(self, out, o):
        o.heap = copy.deepcopy(self.heap)
        out.append(o)

    def _walk(self, fn, bb, env, pc, events, out, depth, trace):
        visited = 0
        while True:
            visited += 1
            if visited > 400:
                raise EncodingError("path too long (loop?) in %s" % fn.name)
            if bb in trace:
                if self.max_revisit <= 1:
                    raise EncodingError("loop detected in %s at %s (engine M refuses loops)" % (fn.name, bb))
                if trace.count(bb) >= self.max_revisit:
                    self._emit(out, Outcome("unrolled-out", pc, msg=bb, events=events, trace=trace))
                    return
            trace = trace + [bb]
            stmts, term, _cleanup = fn.blocks[bb]
            for st in stmts:
                if st.startswith(("StorageLive", "StorageDead", "nop", "FakeRead", "PlaceMention", "Retag",
                                  "AscribeUserType", "Coverage", "ConstEvalCounter")):
                    continue
                m = re.fullmatch(r"(.+?) = (.+);", st)
                if not m:
                    raise EncodingError("cannot parse statement %r in %s" % (st, fn.name))
                self.assign(m.group(1), self.rvalue(m.group(2), env, fn), env, fn)
            if self.stop_at:
                label = self.stop_at(fn, bb, term)
                if label:
                    self._emit(out, Outcome("stopped", pc, msg=label, events=events, trace=trace, value=dict(env)))
                    return
            t = term
            if t == "return;":
                self._emit(out, Outcome("return", pc, value=env.get("_0", TupleV([])), events=events, trace=trace))
                return
            if t == "unreachable;":
                self._emit(out, Outcome("unreachable", pc, events=events, trace=trace))
                return
            m = re.fullmatch(r"goto -> (bb\d+);", t)
            if m:
                bb = m.group(1)
                continue
            m = re.fullmatch(r"drop\(.*\) -> \[return: (bb\d+), unwind.*\];", t)
            if m:
                bb = m.group(1)
                continue
            m = re.fullmatch(r"switchInt\((.+)\) -> \[(.+)\];", t)
            if m:
                v = self.operand(m.group(1), env, fn)
                targets = []
                other = None
                for part in split_top(m.group(2)):
                    k, dst = part.split(":")
                    if k.strip() == "otherwise":
                        other = dst.strip()
                    else:
                        targets.append((int(k.strip()), dst.strip()))
                if isinstance(v, BoolV):
                    v = IntV("(ite %s 1 0)" % v.term, "u8", None if v.const is None else int(v.const))
                if isinstance(v, OpaqueV) and getattr(self, "havoc_unknown", False):
                    # an opaque scalar (element of an opaque collection, result of an arbitrary call): one
                    # arbitrary integer per identity, so that repeated tests of the same value agree
                    memo = self.__dict__.setdefault("_opaque_ints", {})
                    if v.what not in memo:
                        memo[v.what] = self.ctx.fresh_int("opaque_scalar", "u8")
                    v = memo[v.what]
                if v.const is not None:
                    nxt = other
                    for k, dst in targets:
                        if k == v.const:
                            nxt = dst
                    if nxt is None:
                        raise EncodingError("switchInt without matching target")
                    bb = nxt
                    continue
                # symbolic: fork
                self.paths += len(targets)
                if self.paths > self.max_paths:
                    raise EncodingError("too many paths in %s" % fn.name)
                saved = copy.deepcopy(self.heap)
                # syntactic pruning: a branch whose literal contradicts one already on the path is infeasible
                pcs = set(pc)
                eqs = [k for k, _d in targets if "(= %s %s)" % (v.term, lit(k)) in pcs]
                for k, dst in targets:
                    if "(not (= %s %s))" % (v.term, lit(k)) in pcs or (eqs and k not in eqs):
                        continue
                    self.heap = copy.deepcopy(saved)
                    self._walk(fn, dst, dict(env), pc + ["(= %s %s)" % (v.term, lit(k))], list(events), out, depth,
                               trace)
                if other is not None and not eqs:
                    conds = ["(not (= %s %s))" % (v.term, lit(k)) for k, _d in targets]
                    self.heap = copy.deepcopy(saved)
                    self._walk(fn, other, dict(env), pc + conds, list(events), out, depth, trace)
                return
            m = re.fullmatch(r"assert\((!?)(.+?), (\".*)\) -> \[success: (bb\d+), unwind.*\];", t)
            if m:
                c = self.operand(m.group(2), env, fn)
                neg = m.group(1) == "!"
                ok_term = s_not(c.term) if neg else c.term
                ok_const = None if c.const is None else ((not c.const) if neg else c.const)
                msg = re.match(r"\"((?:[^\"\\]|\\.)*)\"", m.group(3)).group(1)
                if ok_const is True:
                    bb = m.group(4)
                    continue
                self._emit(out, Outcome("panic", pc + [s_not(ok_term)], msg="%s (%s %s)" % (msg, fn.name, bb),
                                        events=events, trace=trace))
                if ok_const is False:
                    return
                pc = pc + [ok_term]
                bb = m.group(4)
                continue
            m = parse_call(t)
            if m:
                dest, callee, argtxt, nxt = m
                args = [self.operand(a, env, fn) for a in split_top(argtxt)] if argtxt.strip() else []
                ret_ty = fn.locals.get(dest.strip()) if dest and re.fullmatch(r"_\d+", dest.strip()) else None
                results = self.call(callee, args, pc, events, fn, depth, ret_ty)
                if len(results) == 1 and results[0][2] is not None and nxt is not None:
                    cpc, cev, val, hp = results[0]
                    pc, events = cpc, cev
                    self.heap = copy.deepcopy(hp)
                    if dest:
                        self.assign(dest, val, env, fn)
                    bb = nxt
                    continue
                for cpc, cev, val, hp in results:
                    if val is None:
                        continue    # panic outcomes already appended by call()
                    if nxt is None:
                        continue    # diverging call
                    e2 = dict(env)
                    self.heap = copy.deepcopy(hp)
                    if dest:
                        self.assign(dest, val, e2, fn)
                    self._walk(fn, nxt, e2, cpc, cev, out, depth, trace)
                # panics inside callee
                for o in self._pending_panics:
                    out.append(o)
                self._pending_panics = []
                return
            raise EncodingError("cannot parse terminator %r in %s" % (t, fn.name))

    _pending_panics = []

    def assign(self, place, val, env, fn):
        place = place.strip()
        if re.fullmatch(r"_\d+", place):
            env[place] = val
            return
        m = re.fullmatch(r"\((_\d+)\.(\d+): (.+)\)", place)
        if m:
            base = env.get(m.group(1))
            k = int(m.group(2))
            if base is None:
                base = TupleV([])
                env[m.group(1)] = base
            if isinstance(base, TupleV):
                base = TupleV(base.fields)
                while len(base.fields) <= k:
                    base.fields.append(None)
                base.fields[k] = val
                env[m.group(1)] = base
                return
        m = re.fullmatch(r"\((.+)\.(\d+): (.+)\)", place)
        if m:
            try:
                base = self.read_place(m.group(1), env, fn)
            except EncodingError:
                base = None
            if isinstance(base, RefV):
                base = base.target
            if isinstance(base, LocV):
                base = self.heap[base.oid][base.k]
            if isinstance(base, ObjV):
                self.heap[base.oid][int(m.group(2))] = val
                return
        m = re.fullmatch(r"\(\*(_\d+)\)", place)
        if m:
            tgt = env.get(m.group(1))
            if isinstance(tgt, LocV):
                self.heap[tgt.oid][tgt.k] = val
            # other writes through a reference: not tracked (only formatter state etc.)
            return
        if getattr(self, "havoc_unknown", False) and re.match(r"^\(+\*_\d+\)", place):
            # a write through a raw/opaque pointer into memory this encoding does not track (e.g. the
            # freshly allocated buffer behind `vec![..]`): in havoc mode that memory is opaque anyway
            return
        raise EncodingError("cannot assign to place %r in %s" % (place, fn.name))

    def call(self, callee, args, pc, events, fn, depth, ret_ty=None):
        """Returns [(pc, events, value|None, heap)]."""
        self.cur_ret_ty = ret_ty
        for rx, model in self.models:
            if rx.startswith("const:"):
                continue
            if re.search(rx, callee):
                res = model(self, callee, args, pc, events)
                outl = []
                for item in res:
                    cpc, cev, val = item[0], item[1], item[2]
                    hp = item[3] if len(item) > 3 else copy.deepcopy(self.heap)
                    if isinstance(val, Outcome):
                        val.heap = hp
                        self._pending_panics = self._pending_panics + [val]
                        outl.append((cpc, cev, None, hp))
                    else:
                        outl.append((cpc, cev, val, hp))
                return outl
        for rx in self.inline:
            if re.search(rx, callee):
                target = self.mir.find(rx if rx.endswith("$") else re.escape(callee) + "$", must=False) or \
                    self.mir.find(rx)
                res = []
                for o in self.run(target, args, pc, events, depth + 1):
                    if o.kind == "return":
                        res.append((o.pc, o.events, o.value, o.heap))
                    elif o.kind == "panic":
                        self._pending_panics = self._pending_panics + [o]
                        res.append((o.pc, o.events, None, o.heap))
                return res
        # fallback: a function defined in the crate (present in the MIR dump under exactly this
        # path, or as the last path segments) is inlined -- so refactorings that introduce helper
        # functions stay encodable
        callee = re.sub(r"::<[^<>]*(?:<[^<>]*(?:<[^<>]*>[^<>]*)*>[^<>]*)*>", "", callee)   # drop generic arguments
        ckey = (callee, fn.name.split("::")[0])
        cache = self.mir.__dict__.setdefault("_cand_cache", {})
        if ckey in cache:
            cands = list(cache[ckey])
        else:
            cands = [f for n, fs in self.mir.fns.items() for f in fs
                     if n == callee or n.endswith("::" + callee) or (("::" in callee) and n.endswith("::" + callee.split("::")[-1])
                                                                      and callee.split("::")[0] in ("Self", fn.name.split("::")[0]))]
            if not cands:
                last = callee.split("::")[-1]
                cands = [f for n, fs in self.mir.fns.items() for f in fs if n.split("::")[-1] == last and re.fullmatch(r"[\w:]+", callee)]
            if "::" in callee:
                # `Type::method`: the candidate must belong to that type (receiver type or module name) --
                # otherwise `Vec::len` would be taken for some crate type's `len`
                tyname = callee.split("::")[-2]
                cands = [f for f in cands if (f.args and re.search(r"\b%s\b" % re.escape(tyname), f.args[0][1]))
                         or f.name.split("::")[0] == tyname.lower() or (f.ret and re.search(r"\b%s\b" % re.escape(tyname), f.ret) and not f.args)]
            if callee.split("::")[0] in ("core", "std", "alloc"):
                cands = []
            cache[ckey] = list(cands)
        if any(re.search(rx, callee) for rx in self.no_inline):
            cands = []
        bodies = set(f.text for f in cands)
        if len(bodies) == 1:
            target = cands[0]
            res = []
            for o in self.run(target, args, pc, events, depth + 1):
                if o.kind == "return":
                    res.append((o.pc, o.events, o.value, o.heap))
                elif o.kind == "panic":
                    self._pending_panics = self._pending_panics + [o]
                    res.append((o.pc, o.events, None, o.heap))
            return res
        if self.havoc_unknown:
            # an EXTERNAL function (not in the crate's MIR): recorded as an event; its result is an
            # arbitrary value of the declared type.  It cannot touch the modelled heap except through
            # what it is handed, which the caller's law inspects via the event's arguments.
            self.havoc_n += 1
            ev = ("call", callee) + tuple(repr(self.load(a))[:60] for a in args)
            hp = copy.deepcopy(self.heap)
            t = (ret_ty or "").strip()
            if re.match(r"^(std::result::)?Result<", t):
                return [(pc, events + [ev + ("Ok",)], EnumV(variant=0, fields=[OpaqueV("ok#%d" % self.havoc_n)]), hp),
                        (pc, events + [ev + ("Err",)], EnumV(variant=1, fields=[OpaqueV("err#%d" % self.havoc_n)]), hp)]
            if re.match(r"^(std::option::)?Option<", t):
                return [(pc, events + [ev + ("Some",)], EnumV(variant=1, fields=[OpaqueV("some#%d" % self.havoc_n)]), hp),
                        (pc, events + [ev + ("None",)], EnumV(variant=0, fields=[]), hp)]
            if t == "bool":
                b = self.ctx.fresh_bool("havoc_" + re.sub(r"\W+", "_", callee)[-24:])
                return [(pc, events + [ev], BoolV(b.term), hp)]
            if t in INT_RANGES:
                return [(pc, events + [ev], self.ctx.fresh_int("havoc", t), hp)]
            if t == "()":
                return [(pc, events + [ev], TupleV([]), hp)]
            return [(pc, events + [ev], OpaqueV("ret#%d:%s" % (self.havoc_n, callee[-40:])), hp)]
        raise EncodingError("call to unmodelled function %r in %s" % (callee, fn.name))


# --------------------------------------------------------------------------
# solver
# --------------------------------------------------------------------------

class Query:
    def __init__(self, name, assertions, expect, get=None, note=""):
        self.name = name
        self.assertions = assertions   # list of SMT bool terms
        self.expect = expect           # "unsat" | "sat"
        self.get = get or {}           # {label: variable term} to evaluate when sat
        self.note = note
        self.result = {}               # solver -> verdict
        self.model = None


def run_queries(ctx, queries, workdir, tag, solvers=("z3-new", "cvc5"), timeout_s=30):
    """One solver process per solver, all queries with push/pop.  Any `(error`
    line => EncodingError (inconclusive)."""
    os.makedirs(workdir, exist_ok=True)
    lines = ["(set-logic ALL)", "(set-option :produce-models true)"]
    lines += ctx.decls
    for s in ctx.side:
        lines.append("(assert %s)" % s)
    for q in queries:
        lines.append("(push 1)")
        lines.append('(echo "Q %s")' % q.name)
        for a in q.assertions:
            lines.append("(assert %s)" % a)
        lines.append("(check-sat)")
        if q.get:
            lines.append('(echo "MODEL-BEGIN")')
            for g in q.get.values():
                lines.append("(get-value (%s))" % g)
            lines.append('(echo "MODEL-END")')
        lines.append("(pop 1)")
    path = os.path.join(workdir, tag + ".smt2")
    open(path, "w").write("\n".join(lines) + "\n")
    import time
    from concurrent.futures import ThreadPoolExecutor
    times = {}
    outputs = {}

    def launch(solver):
        if solver in ("z3", "z3-new"):
            cmd = [solver, "-t:%d" % (timeout_s * 1000), path]
        else:
            cmd = ["cvc5", "--lang", "smt2", "--incremental", "--tlimit-per=%d" % (timeout_s * 1000), path]
        t0 = time.time()
        p = subprocess.run(cmd, capture_output=True, text=True)
        times[solver] = time.time() - t0
        outputs[solver] = p.stdout + p.stderr

    with ThreadPoolExecutor(max_workers=len(solvers)) as tp:
        list(tp.map(launch, solvers))
    for solver in solvers:
        # (z3 4.8.12 at /usr/bin/z3 does not finish the nested div/mod/ite terms of the generated
        # encoding; z3 5.1.0 "z3-new" and cvc5 both do, in seconds.)
        out = outputs[solver]
        open(os.path.join(workdir, "%s.%s.out" % (tag, solver)), "w").write(out)
        cur = None
        in_model = False
        model_lines = []
        qmap = {q.name: q for q in queries}
        for ln in out.split("\n"):
            ln = ln.strip()
            if ln.startswith("Q ") or ln.startswith('"Q '):
                cur = qmap[ln.strip('"')[2:]]
                continue
            if cur is None:
                continue
            if ln in ("sat", "unsat", "unknown", "timeout"):
                cur.result[solver] = ln
            elif ln.strip('"') == "MODEL-BEGIN":
                in_model = True
                model_lines = []
            elif ln.strip('"') == "MODEL-END":
                in_model = False
                if cur.result.get(solver) == "sat" and cur.model is None:
                    vals = parse_values(" ".join(model_lines))
                    cur.model = {lab: vals.get(term) for lab, term in cur.get.items()}
            elif in_model:
                if "(error" in ln and cur.result.get(solver) != "sat":
                    continue    # get-value after unsat: expected error, not an encoding problem
                model_lines.append(ln)
            elif "(error" in ln:
                raise EncodingError("%s reported an error on query %s: %s" % (solver, cur.name, ln))
        for q in queries:
            if solver not in q.result:
                q.result[solver] = "missing"
    return path, times


def parse_values(model_txt):
    """Parse `((term value))` lines from get-value into {term: int|bool|str}."""
    vals = {}
    if not model_txt:
        return vals
    for m in re.finditer(r"\(\((\S+) (\(- \d+\)|-?\d+|true|false)\)\)", model_txt):
        v = m.group(2)
        if v in ("true", "false"):
            vals[m.group(1)] = (v == "true")
        elif v.startswith("(-"):
            vals[m.group(1)] = -int(v[3:-1])
        else:
            vals[m.group(1)] = int(v)
    return vals
