"""Engine M, part 2: the per-property queries over the MIR encoding."""
import os
import re
import time

from . import mir as M
from .mir import EncodingError, IntV, BoolV, EnumV, TupleV, RefV, StrV, OpaqueV, Outcome, Query, lit, s_and, s_or, s_not

VERIF = os.path.dirname(os.path.dirname(os.path.abspath(__file__)))
REPO = os.environ.get("VERIF_REPO", "/repo")

NS = 1000000000
I64_MIN, I64_MAX = -2**63, 2**63 - 1
U64_MAX = 2**64 - 1
T_MIN = I64_MIN * NS                 # SystemTime range of the platform (Unix Timespec {i64 secs, u32 nanos<1e9})
T_MAX = I64_MAX * NS + (NS - 1)
D_MAX = U64_MAX * NS + (NS - 1)      # Duration range
EPOCH_TS = 116444736000000000        # cross-checked against the MIR constant at run time


def deref(v):
    while isinstance(v, RefV):
        v = v.target
    return v


# --------------------------------------------------------------------------
# std models (each is part of the trusted base and is listed in the evidence)
# --------------------------------------------------------------------------

STD_MODELS_DOC = [
    "SystemTime modelled as total nanoseconds since the Unix epoch, an integer in [i64::MIN*1e9, i64::MAX*1e9+999999999] (Unix Timespec{i64 secs, nanos<1e9})",
    "Duration modelled as total nanoseconds in [0, u64::MAX*1e9+999999999]",
    "SystemTime::duration_since(a, b): Ok(a-b) if a >= b else Err(b-a); SystemTimeError::duration returns that difference",
    "SystemTime::checked_add/checked_sub: Some(result) iff the result stays inside the SystemTime range, else None",
    "Duration::new(secs, nanos): secs*1e9+nanos, panics iff secs + nanos/1e9 exceeds u64::MAX",
    "Duration::as_secs = total div 1e9; Duration::subsec_nanos = total mod 1e9",
    "u64::saturating_add/sub/mul: the exact result clamped to [0, u64::MAX]",
    "Option::unwrap_or(o, d): payload if Some else d",
]


def m_duration_since(ex, callee, args, pc, events):
    a, b = deref(args[0]), deref(args[1])
    ge = "(>= %s %s)" % (a.term, b.term)
    ok = EnumV(variant=0, fields=[IntV("(- %s %s)" % (a.term, b.term), "Duration")])
    err = EnumV(variant=1, fields=[EnumV(variant="SystemTimeError", fields=[IntV("(- %s %s)" % (b.term, a.term), "Duration")])])
    return [(pc + [ge], events, ok), (pc + [s_not(ge)], events, err)]


def m_err_duration(ex, callee, args, pc, events):
    e = deref(args[0])
    return [(pc, events, e.fields[0])]


def m_as_secs(ex, callee, args, pc, events):
    d = deref(args[0])
    return [(pc, events, IntV("(div %s %d)" % (d.term, NS), "u64"))]


def m_subsec_nanos(ex, callee, args, pc, events):
    d = deref(args[0])
    return [(pc, events, IntV("(mod %s %d)" % (d.term, NS), "u32"))]


def m_saturating(ex, callee, args, pc, events):
    a, b = deref(args[0]), deref(args[1])
    ty = re.search(r"impl (\w+)>", callee).group(1)
    lo, hi = M.INT_RANGES[ty]
    if "saturating_add" in callee:
        e = "(+ %s %s)" % (a.term, b.term)
    elif "saturating_sub" in callee:
        e = "(- %s %s)" % (a.term, b.term)
    else:
        if a.const is None and b.const is None:
            raise EncodingError("saturating_mul of two symbolic values")
        e = "(* %s %s)" % (a.term, b.term)
    t = "(ite (> %s %s) %s (ite (< %s %s) %s %s))" % (e, lit(hi), lit(hi), e, lit(lo), lit(lo), e)
    return [(pc, events, IntV(t, ty))]


def m_duration_new(ex, callee, args, pc, events):
    secs, nanos = deref(args[0]), deref(args[1])
    total_secs = "(+ %s (div %s %d))" % (secs.term, nanos.term, NS)
    overflow = "(> %s %s)" % (total_secs, lit(U64_MAX))
    val = IntV("(+ (* %s %d) %s)" % (secs.term, NS, nanos.term), "Duration")
    return [(pc + [s_not(overflow)], events, val),
            (pc + [overflow], events, Outcome("panic", pc + [overflow], msg="overflow in Duration::new", events=events))]


def m_checked_add(ex, callee, args, pc, events):
    t, d = deref(args[0]), deref(args[1])
    sign = "+" if "checked_add" in callee else "-"
    r = "(%s %s %s)" % (sign, t.term, d.term)
    inr = "(and (<= %s %s) (<= %s %s))" % (lit(T_MIN), r, r, lit(T_MAX))
    some = EnumV(variant=1, fields=[IntV(r, "SystemTime")])
    none = EnumV(variant=0, fields=[])
    return [(pc + [inr], events, some), (pc + [s_not(inr)], events, none)]


def m_unwrap_or(ex, callee, args, pc, events):
    o, d = deref(args[0]), deref(args[1])
    if o.variant == 1:
        return [(pc, events, o.fields[0])]
    return [(pc, events, d)]


def c_unix_epoch(ex, txt):
    return IntV("0", "SystemTime", 0)


def c_promoted_epoch(ex, txt):
    return RefV(IntV("0", "SystemTime", 0))


TIME_MODELS = [
    (r"const:std::time::UNIX_EPOCH$", c_unix_epoch),
    (r"const:system_time_from_timestamp::promoted\[\d+\]$", c_promoted_epoch),
    (r"SystemTime::duration_since$", m_duration_since),
    (r"SystemTimeError::duration$", m_err_duration),
    (r"Duration::as_secs$", m_as_secs),
    (r"Duration::subsec_nanos$", m_subsec_nanos),
    (r"impl u(32|64)>::saturating_(add|sub|mul)$", m_saturating),
    (r"Duration::new$", m_duration_new),
    (r"SystemTime::checked_(add|sub)$", m_checked_add),
    (r"Option::<SystemTime>::unwrap_or$", m_unwrap_or),
]

TIME_INLINE = [r"^duration_to_timestamp_delta$", r"^timestamp_delta_to_duration$"]


class Group:
    """A group of queries that decide one law."""

    def __init__(self, name, functions, note="", confirm=None, validation=False):
        self.name = name
        self.functions = functions
        self.note = note
        self.queries = []
        self.witness = []
        self.confirm = confirm          # confirm(model, native) -> (True|False|None, detail): native replay
        self.validation = validation    # translator validation: a failure is an encoding problem, not a violation


class Native:
    """Runs the native replay tests of the harness crate (plain cargo test,
    real code, pub(crate) access) on concrete inputs."""

    def __init__(self, pid, work):
        self.pid = pid
        self.work = work
        self.crate = None

    def __call__(self, test, inputs):
        import subprocess
        from . import kani_run
        if self.crate is None:
            self.crate = kani_run.prepare_crate(self.pid + "_native")
        env = dict(kani_run.BASE_ENV)
        env["VERIF_REPLAY"] = ";".join("%s=%s" % (k, v) for k, v in inputs.items() if v is not None)
        env["CARGO_TARGET_DIR"] = os.path.join(self.crate, "target_native")
        p = subprocess.run(["cargo", "test", "--offline", "--lib", test, "--", "--nocapture", "--test-threads=1"],
                           cwd=self.crate, env=env, capture_output=True, text=True, timeout=900)
        out = {}
        for m in re.finditer(r"^OUT (\w+)=(.*)$", p.stdout, re.M):
            v = m.group(2).strip()
            try:
                out[m.group(1)] = int(v)
            except ValueError:
                out[m.group(1)] = v
        out["_panicked"] = ("panicked at" in p.stdout + p.stderr)
        out["_ran"] = ("running 1 test" in p.stdout)
        if out["_panicked"]:
            m = re.search(r"panicked at ([^\n]*)\n([^\n]*)", p.stdout + p.stderr)
            out["_panic_msg"] = m.group(0) if m else ""
        return out


def _load_mir(work):
    path = M.dump_mir(REPO, os.path.join(work, "mir"))
    return M.Mir(path), path


def paths_of(mir, ctx, fn_rx, args, models, inline, pc=None):
    ex = M.Exec(mir, ctx, models=models, inline=inline)
    fn = mir.find(fn_rx)
    outs = ex.run(fn, args, pc)
    outs = outs + ex._pending_panics
    ex._pending_panics = []
    return outs, fn


# --------------------------------------------------------------------------
# C18
# --------------------------------------------------------------------------

def _c18_confirm(law):
    T1601 = -(EPOCH_TS * 100)
    TMAXTICK = (U64_MAX - EPOCH_TS) * 100

    def f(model, native):
        out = native("native::c18::replay_c18", model)
        if not out.get("_ran"):
            return None, "native replay did not run"
        if law == "no_panic":
            return out["_panicked"], out.get("_panic_msg", "no panic natively")
        if out["_panicked"]:
            return True, "native run panicked: " + out.get("_panic_msg", "")
        if law == "tick_round_trip":
            t = model.get("t")
            return (out.get("FG_t") != t), "t=%s native from(to(t))=%s" % (t, out.get("FG_t"))
        if law == "resolution":
            sv = model.get("s")
            d = out.get("GF_s") - sv
            return (not (-100 < d < 100)), "s=%s native to(from(s))=%s diff=%s ns" % (sv, out.get("GF_s"), d)
        if law == "idempotence":
            return (out.get("FGF_s") != out.get("F_s")), "s=%s from(s)=%s from(to(from(s)))=%s" % (
                model.get("s"), out.get("F_s"), out.get("FGF_s"))
        if law == "monotone":
            if model.get("s1") is not None:
                return (out.get("F_s1") > out.get("F_s2")), "s1=%s s2=%s from: %s, %s" % (
                    model.get("s1"), model.get("s2"), out.get("F_s1"), out.get("F_s2"))
            return (out.get("G_t1") > out.get("G_t2")), "t1=%s t2=%s to: %s, %s" % (
                model.get("t1"), model.get("t2"), out.get("G_t1"), out.get("G_t2"))
        if law == "saturation":
            sv = model.get("s")
            if sv < T1601:
                return (out.get("F_s") != 0), "s=%s (before 1601) from(s)=%s" % (sv, out.get("F_s"))
            return (out.get("F_s") != U64_MAX), "s=%s (after tick max) from(s)=%s" % (sv, out.get("F_s"))
        return None, "no native oracle for " + law
    return f


def c18_groups(mir, ctx):
    F = r"^timestamp_from_system_time$"
    G = r"^system_time_from_timestamp$"
    fns = ["timestamp::timestamp_from_system_time", "timestamp::system_time_from_timestamp",
           "timestamp::duration_to_timestamp_delta", "timestamp::timestamp_delta_to_duration"]
    groups = []

    c = mir.consts.get("UNIX_EPOCH_TIMESTAMP")
    if not c or not c[0].startswith(str(EPOCH_TS)):
        raise EncodingError("UNIX_EPOCH_TIMESTAMP constant not found / changed in MIR: %r" % (c,))

    def sym_time(name):
        return ctx.fresh_int(name, None, T_MIN, T_MAX)

    def F_paths(s, pc=None):
        outs, _ = paths_of(mir, ctx, F, [IntV(s.term, "SystemTime")], TIME_MODELS, TIME_INLINE, pc)
        return outs

    def G_paths(t, pc=None):
        outs, _ = paths_of(mir, ctx, G, [IntV(t.term, "u64")], TIME_MODELS, TIME_INLINE, pc)
        return outs

    T1601 = -(EPOCH_TS * 100)                       # 1601-01-01 in ns relative to the Unix epoch
    TMAXTICK = (U64_MAX - EPOCH_TS) * 100            # tick 2^64-1

    # ---- translator validation: the repo's own unit-test constants --------
    g = Group("translator_validation", fns, validation=True, note="ground queries from timestamp.rs's unit tests must be reproduced exactly")
    src = open(os.path.join(REPO, "src/internal/timestamp.rs")).read()
    pairs = [(131343363960000000, 1489862796 * NS), (116302906200000000, -14182980 * NS), (EPOCH_TS, 0)]
    for tick, ns in pairs:
        if str(tick) not in src and tick != EPOCH_TS:
            continue
        for o in F_paths(IntV(lit(ns), "SystemTime", ns)):
            if o.kind == "return":
                g.queries.append(Query("tv_F_%d_%d" % (tick, len(g.queries)),
                                       o.pc + ["(not (= %s %s))" % (o.value.term, lit(tick))], "unsat"))
        for o in G_paths(IntV(lit(tick), "u64", tick)):
            if o.kind == "return":
                g.queries.append(Query("tv_G_%d_%d" % (tick, len(g.queries)),
                                       o.pc + ["(not (= %s %s))" % (o.value.term, lit(ns))], "unsat"))
    # u64::MAX delta -> 1844674407370 s + 955161500 ns  (extreme_timestamp_delta)
    outs, _ = paths_of(mir, ctx, r"^timestamp_delta_to_duration$", [IntV(lit(U64_MAX), "u64", U64_MAX)], TIME_MODELS, TIME_INLINE)
    for o in outs:
        if o.kind == "return":
            g.queries.append(Query("tv_delta_max", o.pc + ["(not (= %s %s))" % (o.value.term, lit(1844674407370 * NS + 955161500))], "unsat"))
            g.witness.append(Query("tv_delta_max_w", o.pc, "sat"))
    groups.append(g)

    # ---- 1. no panic ------------------------------------------------------
    g = Group("no_panic", fns, confirm=_c18_confirm("no_panic"), note="no MIR assert/panic terminator reachable for any SystemTime in the platform range / any u64 tick")
    s = sym_time("s")
    t = ctx.fresh_int("t", "u64")
    nret = 0
    for o in F_paths(s):
        if o.kind == "panic":
            g.queries.append(Query("F_panic_%d" % len(g.queries), o.pc, "unsat", get={"s": s.term}, note=o.msg))
        elif o.kind == "return":
            g.witness.append(Query("F_reach_%d" % nret, o.pc, "sat"))
            nret += 1
    for o in G_paths(t):
        if o.kind == "panic":
            g.queries.append(Query("G_panic_%d" % len(g.queries), o.pc, "unsat", get={"t": t.term}, note=o.msg))
        elif o.kind == "return":
            g.witness.append(Query("G_reach_%d" % nret, o.pc, "sat"))
            nret += 1
    groups.append(g)

    # ---- 2. tick round trip ----------------------------------------------
    g = Group("tick_round_trip", fns, confirm=_c18_confirm("tick_round_trip"), note="for every u64 tick t: from_system_time(to_system_time(t)) == t")
    t = ctx.fresh_int("t", "u64")
    for o1 in G_paths(t):
        if o1.kind != "return":
            continue
        for o2 in F_paths(o1.value, o1.pc):
            if o2.kind != "return":
                continue
            g.queries.append(Query("rt_%d" % len(g.queries), o2.pc + ["(not (= %s %s))" % (o2.value.term, t.term)], "unsat",
                                   get={"t": t.term}))
            g.witness.append(Query("rt_w_%d" % len(g.witness), o2.pc, "sat"))
    groups.append(g)

    # ---- 3. resolution / 4. idempotence -----------------------------------
    g = Group("resolution", fns, confirm=_c18_confirm("resolution"), note="for every system time s in [1601-01-01, tick 2^64-1]: |to(from(s)) - s| < 100 ns")
    g4 = Group("idempotence", fns, confirm=_c18_confirm("idempotence"), note="for every system time s: from(to(from(s))) == from(s)")
    s = sym_time("s")
    inrange = "(and (<= %s %s) (<= %s %s))" % (lit(T1601), s.term, s.term, lit(TMAXTICK))
    for o1 in F_paths(s):
        if o1.kind != "return":
            continue
        for o2 in G_paths(o1.value, o1.pc):
            if o2.kind != "return":
                continue
            diff = "(- %s %s)" % (o2.value.term, s.term)
            bad = "(not (and (< %s 100) (> %s (- 100))))" % (diff, diff)
            g.queries.append(Query("res_%d" % len(g.queries), o2.pc + [inrange, bad], "unsat",
                                   get={"s": s.term}))
            g.witness.append(Query("res_w_%d" % len(g.witness), o2.pc + [inrange], "sat"))
            for o3 in F_paths(o2.value, o2.pc):
                if o3.kind != "return":
                    continue
                g4.queries.append(Query("idem_%d" % len(g4.queries), o3.pc + ["(not (= %s %s))" % (o3.value.term, o1.value.term)],
                                        "unsat", get={"s": s.term}))
                g4.witness.append(Query("idem_w_%d" % len(g4.witness), o3.pc, "sat"))
    groups.append(g)
    groups.append(g4)

    # ---- 5. monotone -------------------------------------------------------
    g = Group("monotone", fns, confirm=_c18_confirm("monotone"), note="s1 <= s2 implies from(s1) <= from(s2); t1 <= t2 implies to(t1) <= to(t2)")
    s1, s2 = sym_time("s1"), sym_time("s2")
    for o1 in F_paths(s1):
        if o1.kind != "return":
            continue
        for o2 in F_paths(s2, o1.pc):
            if o2.kind != "return":
                continue
            g.queries.append(Query("monoF_%d" % len(g.queries),
                                   o2.pc + ["(<= %s %s)" % (s1.term, s2.term), "(> %s %s)" % (o1.value.term, o2.value.term)],
                                   "unsat", get={"s1": s1.term, "s2": s2.term}))
    t1, t2 = ctx.fresh_int("t1", "u64"), ctx.fresh_int("t2", "u64")
    for o1 in G_paths(t1):
        if o1.kind != "return":
            continue
        for o2 in G_paths(t2, o1.pc):
            if o2.kind != "return":
                continue
            g.queries.append(Query("monoG_%d" % len(g.queries),
                                   o2.pc + ["(<= %s %s)" % (t1.term, t2.term), "(> %s %s)" % (o1.value.term, o2.value.term)],
                                   "unsat", get={"t1": t1.term, "t2": t2.term}))
            g.witness.append(Query("mono_w_%d" % len(g.witness), o2.pc + ["(< %s %s)" % (t1.term, t2.term)], "sat"))
    groups.append(g)

    # ---- 6. saturation -------------------------------------------------------
    g = Group("saturation", fns, confirm=_c18_confirm("saturation"), note="s before 1601 gives tick 0; s after tick 2^64-1 gives tick u64::MAX")
    s = sym_time("s")
    for o in F_paths(s):
        if o.kind != "return":
            continue
        g.queries.append(Query("sat_lo_%d" % len(g.queries), o.pc + ["(< %s %s)" % (s.term, lit(T1601)), "(not (= %s 0))" % o.value.term],
                               "unsat", get={"s": s.term}))
        g.queries.append(Query("sat_hi_%d" % len(g.queries), o.pc + ["(> %s %s)" % (s.term, lit(TMAXTICK + 99)),
                                                                      "(not (= %s %s))" % (o.value.term, lit(U64_MAX))],
                               "unsat", get={"s": s.term}))
    g.witness.append(Query("sat_w", ["(< %s %s)" % (s.term, lit(T1601))], "sat"))
    groups.append(g)
    return groups


# --------------------------------------------------------------------------
# driver
# --------------------------------------------------------------------------

BUILDERS = {"C18": c18_groups}


def native_confirm_c18(vals, work):
    return None


def run_property(pid, tier, work, known_by_id, replay_dir):
    t0 = time.time()
    mir, mir_path = _load_mir(work)
    dump_s = time.time() - t0
    ctx = M.Ctx()
    groups = BUILDERS[pid](mir, ctx)
    allq = []
    for g in groups:
        for q in g.queries + g.witness:
            q.name = "%s.%s" % (g.name, q.name)
            allq.append(q)
    path, times = M.run_queries(ctx, allq, os.path.join(work, "smt"), pid)
    res = {"records": [], "lines": [], "problems": [], "violations": []}
    native = Native(pid, work)
    for g in groups:
        bad = []
        unknown = []
        single = []
        for q in g.queries:
            verdicts = set(q.result.values())
            definite = verdicts & {"sat", "unsat"}
            if len(definite) == 1 and len(verdicts) > 1:
                # one solver decided, the other gave up (unknown/timeout): accepted, recorded
                single.append(q.name)
                verdicts = definite
            if verdicts == {q.expect}:
                continue
            if len(definite) != 1 or len(verdicts) > 1:
                unknown.append(q)
            else:
                bad.append(q)
        wit_ok = all(set(w.result.values()) == {"sat"} for w in g.witness) if g.witness else True
        # at least one witness must be sat (the group reaches its assertions); individual path
        # combinations may be infeasible, which is fine
        wit_any = any(set(w.result.values()) == {"sat"} for w in g.witness) if g.witness else True
        rec = {
            "engine": "mir-smt", "query": "%s.%s" % (pid, g.name), "status": "PASS", "smt_queries": len(g.queries) + len(g.witness),
            "functions": g.functions, "note": g.note, "witness_ok": wit_any,
            "bounds": "full machine-integer ranges (mathematical integers + range side conditions); structural bound: the named loop-free functions and the listed std models",
            "symbolic": "all integer inputs of the encoded functions",
            "solver_time_s": round(sum(times.values()), 2), "verification_time_s": round(sum(times.values()), 2),
            "solvers": sorted(times.keys()),
            "decided_by_one_solver_only": single,
        }
        if unknown:
            rec["status"] = "UNKNOWN"
            res["problems"].append("%s.%s: %d queries undecided or solvers disagree (%s)" % (
                pid, g.name, len(unknown), ", ".join("%s=%r" % (q.name, q.result) for q in unknown[:3])))
        elif not wit_any:
            rec["status"] = "VACUOUS"
            res["problems"].append("%s.%s: no reachability witness is satisfiable (vacuous encoding)" % (pid, g.name))
        elif bad:
            rec["status"] = "FAIL"
            os.makedirs(replay_dir, exist_ok=True)
            rp = os.path.join(replay_dir, "mir_%s.txt" % g.name)
            with open(rp, "w") as f:
                f.write("property: %s\nlaw: %s -- %s\nSMT script: (regenerate with ./check %s --keep) %s\n" % (pid, g.name, g.note, pid, path))
                for q in bad:
                    f.write("query %s expected %s got %r\n  note: %s\n  model: %s\n" % (q.name, q.expect, q.result, q.note, q.model))
            rec["counterexamples"] = [{"query": q.name, "model": q.model, "note": q.note} for q in bad[:5]]
            rec["replay"] = rp
            kf = None
            for k in known_by_id.values():
                if k.get("property") == pid and k.get("query") == g.name:
                    kf = k
            reproduced, detail = None, "no native replay defined for this law"
            withmodel = [q for q in bad if q.model]
            if g.validation:
                rec["status"] = "ENCODING-ERROR"
                res["problems"].append("%s.%s: translator validation failed (%s) -- the encoding or the validated "
                                       "constants no longer match the code" % (pid, g.name, bad[0].name))
                res["records"].append(rec)
                continue
            if g.confirm and withmodel:
                try:
                    reproduced, detail = g.confirm(withmodel[0].model, native)
                except Exception as e:  # noqa
                    reproduced, detail = None, "native replay failed to run: %r" % (e,)
            with open(rp, "a") as f:
                f.write("native replay: reproduced=%s -- %s\n" % (reproduced, detail))
            rec["replay_reproduced"] = reproduced
            rec["replay_detail"] = detail
            if kf:
                rec["status"] = "KNOWN-FINDING"
                rec["known_finding"] = kf["id"]
                res["lines"].append("KNOWN-FINDING: property=%s %s [%s]" % (pid, kf["what"], kf["id"]))
            elif reproduced is False or (reproduced is None and g.confirm):
                rec["status"] = "NON-REPRODUCING"
                res["problems"].append("%s.%s: solver counterexample did not reproduce natively (%s)" % (pid, g.name, detail))
            else:
                res["violations"].append((g.name, rp, [q.name for q in bad]))
                res["lines"].append("VIOLATION property=%s replay=%s" % (pid, rp))
        res["records"].append(rec)
    res["records"].append({"engine": "mir-smt", "query": "%s.mir_dump" % pid, "status": "PASS", "smt_queries": 0,
                           "note": "MIR regenerated from %s in %.1fs (%s)" % (REPO, dump_s, os.path.basename(mir_path)),
                           "witness_ok": False, "functions": []})
    return res
