"""Engine M, part 2: the per-property queries over the MIR encoding."""
import copy
import os
import re
import time

from . import mir as M
from .mir import EncodingError, IntV, BoolV, EnumV, TupleV, RefV, StrV, OpaqueV, Outcome, Query, lit, s_and, s_or, s_not

VERIF = os.path.dirname(os.path.dirname(os.path.abspath(__file__)))
REPO = os.environ.get("VERIF_REPO", "/repo")

NS = 1000000000
I64_MIN, I64_MAX = -2**63, 2**63 - 1
U64_MAX = 2**64 - 1
T_MIN = I64_MIN * NS                 # SystemTime range of the platform (Unix Timespec {i64 secs, u32 nanos<1e9})
T_MAX = I64_MAX * NS + (NS - 1)
D_MAX = U64_MAX * NS + (NS - 1)      # Duration range
EPOCH_TS = 116444736000000000        # cross-checked against the MIR constant at run time


def deref(v):
    while isinstance(v, RefV):
        v = v.target
    return v


# --------------------------------------------------------------------------
# std models (each is part of the trusted base and is listed in the evidence)
# --------------------------------------------------------------------------

STD_MODELS_DOC = [
    "SystemTime modelled as total nanoseconds since the Unix epoch, an integer in [i64::MIN*1e9, i64::MAX*1e9+999999999] (Unix Timespec{i64 secs, nanos<1e9})",
    "Duration modelled as total nanoseconds in [0, u64::MAX*1e9+999999999]",
    "SystemTime::duration_since(a, b): Ok(a-b) if a >= b else Err(b-a); SystemTimeError::duration returns that difference",
    "SystemTime::checked_add/checked_sub: Some(result) iff the result stays inside the SystemTime range, else None",
    "Duration::new(secs, nanos): secs*1e9+nanos, panics iff secs + nanos/1e9 exceeds u64::MAX",
    "Duration::as_secs = total div 1e9; Duration::subsec_nanos = total mod 1e9",
    "u64::saturating_add/sub/mul: the exact result clamped to [0, u64::MAX]",
    "Option::unwrap_or(o, d): payload if Some else d",
]


def m_duration_since(ex, callee, args, pc, events):
    a, b = deref(args[0]), deref(args[1])
    ge = "(>= %s %s)" % (a.term, b.term)
    ok = EnumV(variant=0, fields=[IntV("(- %s %s)" % (a.term, b.term), "Duration")])
    err = EnumV(variant=1, fields=[EnumV(variant="SystemTimeError", fields=[IntV("(- %s %s)" % (b.term, a.term), "Duration")])])
    return [(pc + [ge], events, ok), (pc + [s_not(ge)], events, err)]


def m_err_duration(ex, callee, args, pc, events):
    e = deref(args[0])
    return [(pc, events, e.fields[0])]


def m_as_secs(ex, callee, args, pc, events):
    d = deref(args[0])
    return [(pc, events, IntV("(div %s %d)" % (d.term, NS), "u64"))]


def m_subsec_nanos(ex, callee, args, pc, events):
    d = deref(args[0])
    return [(pc, events, IntV("(mod %s %d)" % (d.term, NS), "u32"))]


def m_saturating(ex, callee, args, pc, events):
    a, b = deref(args[0]), deref(args[1])
    ty = re.search(r"impl (\w+)>", callee).group(1)
    lo, hi = M.INT_RANGES[ty]
    if "saturating_add" in callee:
        e = "(+ %s %s)" % (a.term, b.term)
    elif "saturating_sub" in callee:
        e = "(- %s %s)" % (a.term, b.term)
    else:
        if a.const is None and b.const is None:
            raise EncodingError("saturating_mul of two symbolic values")
        e = "(* %s %s)" % (a.term, b.term)
    t = "(ite (> %s %s) %s (ite (< %s %s) %s %s))" % (e, lit(hi), lit(hi), e, lit(lo), lit(lo), e)
    return [(pc, events, IntV(t, ty))]


def m_duration_new(ex, callee, args, pc, events):
    secs, nanos = deref(args[0]), deref(args[1])
    total_secs = "(+ %s (div %s %d))" % (secs.term, nanos.term, NS)
    overflow = "(> %s %s)" % (total_secs, lit(U64_MAX))
    val = IntV("(+ (* %s %d) %s)" % (secs.term, NS, nanos.term), "Duration")
    return [(pc + [s_not(overflow)], events, val),
            (pc + [overflow], events, Outcome("panic", pc + [overflow], msg="overflow in Duration::new", events=events))]


def m_checked_add(ex, callee, args, pc, events):
    t, d = deref(args[0]), deref(args[1])
    sign = "+" if "checked_add" in callee else "-"
    r = "(%s %s %s)" % (sign, t.term, d.term)
    inr = "(and (<= %s %s) (<= %s %s))" % (lit(T_MIN), r, r, lit(T_MAX))
    some = EnumV(variant=1, fields=[IntV(r, "SystemTime")])
    none = EnumV(variant=0, fields=[])
    return [(pc + [inr], events, some), (pc + [s_not(inr)], events, none)]


def m_unwrap_or(ex, callee, args, pc, events):
    o, d = deref(args[0]), deref(args[1])
    if o.variant == 1:
        return [(pc, events, o.fields[0])]
    return [(pc, events, d)]


def c_unix_epoch(ex, txt):
    return IntV("0", "SystemTime", 0)


def c_promoted_epoch(ex, txt):
    return RefV(IntV("0", "SystemTime", 0))


TIME_MODELS = [
    (r"const:std::time::UNIX_EPOCH$", c_unix_epoch),
    (r"const:system_time_from_timestamp::promoted\[\d+\]$", c_promoted_epoch),
    (r"SystemTime::duration_since$", m_duration_since),
    (r"SystemTimeError::duration$", m_err_duration),
    (r"Duration::as_secs$", m_as_secs),
    (r"Duration::subsec_nanos$", m_subsec_nanos),
    (r"impl u(32|64)>::saturating_(add|sub|mul)$", m_saturating),
    (r"Duration::new$", m_duration_new),
    (r"SystemTime::checked_(add|sub)$", m_checked_add),
    (r"Option::<SystemTime>::unwrap_or$", m_unwrap_or),
]

TIME_INLINE = [r"^duration_to_timestamp_delta$", r"^timestamp_delta_to_duration$"]


class Group:
    """A group of queries that decide one law."""

    def __init__(self, name, functions, note="", confirm=None, validation=False):
        self.name = name
        self.functions = functions
        self.note = note
        self.queries = []
        self.witness = []
        self.confirm = confirm          # confirm(model, native) -> (True|False|None, detail): native replay
        self.validation = validation    # translator validation: a failure is an encoding problem, not a violation


class Native:
    """Runs the native replay tests of the harness crate (plain cargo test,
    real code, pub(crate) access) on concrete inputs."""

    def __init__(self, pid, work):
        self.pid = pid
        self.work = work
        self.crate = None

    def __call__(self, test, inputs):
        import subprocess
        from . import kani_run
        if self.crate is None:
            self.crate = kani_run.prepare_crate(self.pid + "_native")
        env = dict(kani_run.BASE_ENV)
        env["VERIF_REPLAY"] = ";".join("%s=%s" % (k, v) for k, v in inputs.items() if v is not None)
        env["CARGO_TARGET_DIR"] = os.path.join(self.crate, "target_native")
        try:
            p = subprocess.run(["cargo", "test", "--offline", "--lib", test, "--", "--exact", "--nocapture", "--test-threads=1"],
                               cwd=self.crate, env=env, capture_output=True, text=True, timeout=420)
        except subprocess.TimeoutExpired:
            # the real code does not terminate on the replayed scenario (e.g. a loop that stops making progress): that is a
            # reproduction of misbehaviour, reported as such
            subprocess.run(["pkill", "-f", os.path.join(self.crate, "target_native")], capture_output=True)
            return {"_ran": True, "_panicked": True, "_panic_msg": "the native replay %s did not terminate within 420 s" % test}
        out = {}
        for m in re.finditer(r"OUT (\w+)=(.*)$", p.stdout, re.M):
            v = m.group(2).strip()
            try:
                out[m.group(1)] = int(v)
            except ValueError:
                out[m.group(1)] = v
        out["_panicked"] = ("panicked at" in p.stdout + p.stderr)
        out["_ran"] = ("running 1 test" in p.stdout)
        if out["_panicked"]:
            m = re.search(r"panicked at ([^\n]*)\n([^\n]*)", p.stdout + p.stderr)
            out["_panic_msg"] = m.group(0) if m else ""
        return out


def _load_mir(work):
    path = M.dump_mir(REPO, os.path.join(work, "mir"))
    return M.Mir(path), path


def paths_of(mir, ctx, fn_rx, args, models, inline, pc=None):
    ex = M.Exec(mir, ctx, models=models, inline=inline)
    fn = mir.find(fn_rx)
    outs = ex.run(fn, args, pc)
    outs = outs + ex._pending_panics
    ex._pending_panics = []
    return outs, fn


# --------------------------------------------------------------------------
# C18
# --------------------------------------------------------------------------

def _c18_confirm(law):
    T1601 = -(EPOCH_TS * 100)
    TMAXTICK = (U64_MAX - EPOCH_TS) * 100

    def f(model, native):
        out = native("native::c18::replay_c18", model)
        if not out.get("_ran"):
            return None, "native replay did not run"
        if law == "no_panic":
            return out["_panicked"], out.get("_panic_msg", "no panic natively")
        if out["_panicked"]:
            return True, "native run panicked: " + out.get("_panic_msg", "")
        if law == "tick_round_trip":
            t = model.get("t")
            return (out.get("FG_t") != t), "t=%s native from(to(t))=%s" % (t, out.get("FG_t"))
        if law == "resolution":
            sv = model.get("s")
            d = out.get("GF_s") - sv
            return (not (-100 < d < 100)), "s=%s native to(from(s))=%s diff=%s ns" % (sv, out.get("GF_s"), d)
        if law == "idempotence":
            return (out.get("FGF_s") != out.get("F_s")), "s=%s from(s)=%s from(to(from(s)))=%s" % (
                model.get("s"), out.get("F_s"), out.get("FGF_s"))
        if law == "monotone":
            if model.get("s1") is not None:
                return (out.get("F_s1") > out.get("F_s2")), "s1=%s s2=%s from: %s, %s" % (
                    model.get("s1"), model.get("s2"), out.get("F_s1"), out.get("F_s2"))
            return (out.get("G_t1") > out.get("G_t2")), "t1=%s t2=%s to: %s, %s" % (
                model.get("t1"), model.get("t2"), out.get("G_t1"), out.get("G_t2"))
        if law == "saturation":
            sv = model.get("s")
            if sv < T1601:
                return (out.get("F_s") != 0), "s=%s (before 1601) from(s)=%s" % (sv, out.get("F_s"))
            return (out.get("F_s") != U64_MAX), "s=%s (after tick max) from(s)=%s" % (sv, out.get("F_s"))
        return None, "no native oracle for " + law
    return f


def c18_groups(mir, ctx):
    F = r"^timestamp_from_system_time$"
    G = r"^system_time_from_timestamp$"
    fns = ["timestamp::timestamp_from_system_time", "timestamp::system_time_from_timestamp",
           "timestamp::duration_to_timestamp_delta", "timestamp::timestamp_delta_to_duration"]
    groups = []

    c = mir.consts.get("UNIX_EPOCH_TIMESTAMP")
    if not c or not c[0].startswith(str(EPOCH_TS)):
        raise EncodingError("UNIX_EPOCH_TIMESTAMP constant not found / changed in MIR: %r" % (c,))

    def sym_time(name):
        return ctx.fresh_int(name, None, T_MIN, T_MAX)

    def F_paths(s, pc=None):
        outs, _ = paths_of(mir, ctx, F, [IntV(s.term, "SystemTime")], TIME_MODELS, TIME_INLINE, pc)
        return outs

    def G_paths(t, pc=None):
        outs, _ = paths_of(mir, ctx, G, [IntV(t.term, "u64")], TIME_MODELS, TIME_INLINE, pc)
        return outs

    T1601 = -(EPOCH_TS * 100)                       # 1601-01-01 in ns relative to the Unix epoch
    TMAXTICK = (U64_MAX - EPOCH_TS) * 100            # tick 2^64-1

    # ---- translator validation: the repo's own unit-test constants --------
    g = Group("translator_validation", fns, validation=True, note="ground queries from timestamp.rs's unit tests must be reproduced exactly")
    src = open(os.path.join(REPO, "src/internal/timestamp.rs")).read()
    pairs = [(131343363960000000, 1489862796 * NS), (116302906200000000, -14182980 * NS), (EPOCH_TS, 0)]
    for tick, ns in pairs:
        if str(tick) not in src and tick != EPOCH_TS:
            continue
        for o in F_paths(IntV(lit(ns), "SystemTime", ns)):
            if o.kind == "return":
                g.queries.append(Query("tv_F_%d_%d" % (tick, len(g.queries)),
                                       o.pc + ["(not (= %s %s))" % (o.value.term, lit(tick))], "unsat"))
        for o in G_paths(IntV(lit(tick), "u64", tick)):
            if o.kind == "return":
                g.queries.append(Query("tv_G_%d_%d" % (tick, len(g.queries)),
                                       o.pc + ["(not (= %s %s))" % (o.value.term, lit(ns))], "unsat"))
    # u64::MAX delta -> 1844674407370 s + 955161500 ns  (extreme_timestamp_delta)
    outs, _ = paths_of(mir, ctx, r"^timestamp_delta_to_duration$", [IntV(lit(U64_MAX), "u64", U64_MAX)], TIME_MODELS, TIME_INLINE)
    for o in outs:
        if o.kind == "return":
            g.queries.append(Query("tv_delta_max", o.pc + ["(not (= %s %s))" % (o.value.term, lit(1844674407370 * NS + 955161500))], "unsat"))
            g.witness.append(Query("tv_delta_max_w", o.pc, "sat"))
    groups.append(g)

    # ---- 1. no panic ------------------------------------------------------
    g = Group("no_panic", fns, confirm=_c18_confirm("no_panic"), note="no MIR assert/panic terminator reachable for any SystemTime in the platform range / any u64 tick")
    s = sym_time("s")
    t = ctx.fresh_int("t", "u64")
    nret = 0
    for o in F_paths(s):
        if o.kind == "panic":
            g.queries.append(Query("F_panic_%d" % len(g.queries), o.pc, "unsat", get={"s": s.term}, note=o.msg))
        elif o.kind == "return":
            g.witness.append(Query("F_reach_%d" % nret, o.pc, "sat"))
            nret += 1
    for o in G_paths(t):
        if o.kind == "panic":
            g.queries.append(Query("G_panic_%d" % len(g.queries), o.pc, "unsat", get={"t": t.term}, note=o.msg))
        elif o.kind == "return":
            g.witness.append(Query("G_reach_%d" % nret, o.pc, "sat"))
            nret += 1
    groups.append(g)

    # ---- 2. tick round trip ----------------------------------------------
    g = Group("tick_round_trip", fns, confirm=_c18_confirm("tick_round_trip"), note="for every u64 tick t: from_system_time(to_system_time(t)) == t")
    t = ctx.fresh_int("t", "u64")
    for o1 in G_paths(t):
        if o1.kind != "return":
            continue
        for o2 in F_paths(o1.value, o1.pc):
            if o2.kind != "return":
                continue
            g.queries.append(Query("rt_%d" % len(g.queries), o2.pc + ["(not (= %s %s))" % (o2.value.term, t.term)], "unsat",
                                   get={"t": t.term}))
            g.witness.append(Query("rt_w_%d" % len(g.witness), o2.pc, "sat"))
    groups.append(g)

    # ---- 3. resolution / 4. idempotence -----------------------------------
    g = Group("resolution", fns, confirm=_c18_confirm("resolution"), note="for every system time s in [1601-01-01, tick 2^64-1]: |to(from(s)) - s| < 100 ns")
    g4 = Group("idempotence", fns, confirm=_c18_confirm("idempotence"), note="for every system time s: from(to(from(s))) == from(s)")
    s = sym_time("s")
    inrange = "(and (<= %s %s) (<= %s %s))" % (lit(T1601), s.term, s.term, lit(TMAXTICK))
    for o1 in F_paths(s):
        if o1.kind != "return":
            continue
        for o2 in G_paths(o1.value, o1.pc):
            if o2.kind != "return":
                continue
            diff = "(- %s %s)" % (o2.value.term, s.term)
            bad = "(not (and (< %s 100) (> %s (- 100))))" % (diff, diff)
            g.queries.append(Query("res_%d" % len(g.queries), o2.pc + [inrange, bad], "unsat",
                                   get={"s": s.term}))
            g.witness.append(Query("res_w_%d" % len(g.witness), o2.pc + [inrange], "sat"))
            for o3 in F_paths(o2.value, o2.pc):
                if o3.kind != "return":
                    continue
                g4.queries.append(Query("idem_%d" % len(g4.queries), o3.pc + ["(not (= %s %s))" % (o3.value.term, o1.value.term)],
                                        "unsat", get={"s": s.term}))
                g4.witness.append(Query("idem_w_%d" % len(g4.witness), o3.pc, "sat"))
    groups.append(g)
    groups.append(g4)

    # ---- 5. monotone -------------------------------------------------------
    g = Group("monotone", fns, confirm=_c18_confirm("monotone"), note="s1 <= s2 implies from(s1) <= from(s2); t1 <= t2 implies to(t1) <= to(t2)")
    s1, s2 = sym_time("s1"), sym_time("s2")
    for o1 in F_paths(s1):
        if o1.kind != "return":
            continue
        for o2 in F_paths(s2, o1.pc):
            if o2.kind != "return":
                continue
            g.queries.append(Query("monoF_%d" % len(g.queries),
                                   o2.pc + ["(<= %s %s)" % (s1.term, s2.term), "(> %s %s)" % (o1.value.term, o2.value.term)],
                                   "unsat", get={"s1": s1.term, "s2": s2.term}))
    t1, t2 = ctx.fresh_int("t1", "u64"), ctx.fresh_int("t2", "u64")
    for o1 in G_paths(t1):
        if o1.kind != "return":
            continue
        for o2 in G_paths(t2, o1.pc):
            if o2.kind != "return":
                continue
            g.queries.append(Query("monoG_%d" % len(g.queries),
                                   o2.pc + ["(<= %s %s)" % (t1.term, t2.term), "(> %s %s)" % (o1.value.term, o2.value.term)],
                                   "unsat", get={"t1": t1.term, "t2": t2.term}))
            g.witness.append(Query("mono_w_%d" % len(g.witness), o2.pc + ["(< %s %s)" % (t1.term, t2.term)], "sat"))
    groups.append(g)

    # ---- 6. saturation -------------------------------------------------------
    g = Group("saturation", fns, confirm=_c18_confirm("saturation"), note="s before 1601 gives tick 0; s after tick 2^64-1 gives tick u64::MAX")
    s = sym_time("s")
    for o in F_paths(s):
        if o.kind != "return":
            continue
        g.queries.append(Query("sat_lo_%d" % len(g.queries), o.pc + ["(< %s %s)" % (s.term, lit(T1601)), "(not (= %s 0))" % o.value.term],
                               "unsat", get={"s": s.term}))
        g.queries.append(Query("sat_hi_%d" % len(g.queries), o.pc + ["(> %s %s)" % (s.term, lit(TMAXTICK + 99)),
                                                                      "(not (= %s %s))" % (o.value.term, lit(U64_MAX))],
                               "unsat", get={"s": s.term}))
    g.witness.append(Query("sat_w", ["(< %s %s)" % (s.term, lit(T1601))], "sat"))
    groups.append(g)
    return groups


# --------------------------------------------------------------------------
# C19: expression printer, one activation of Ast::format_with_precedence
# --------------------------------------------------------------------------

def sexpr_parse(txt):
    toks = txt.replace("(", " ( ").replace(")", " ) ").split()
    pos = [0]

    def rd():
        t = toks[pos[0]]
        pos[0] += 1
        if t == "(":
            lst = []
            while toks[pos[0]] != ")":
                lst.append(rd())
            pos[0] += 1
            return lst
        return t
    return rd()


def sexpr_eval(e, env):
    if isinstance(e, str):
        if e in ("true", "false"):
            return e == "true"
        if re.fullmatch(r"-?\d+", e):
            return int(e)
        return env[e]
    op, args = e[0], e[1:]
    if op == "ite":
        return sexpr_eval(args[1], env) if sexpr_eval(args[0], env) else sexpr_eval(args[2], env)
    vals = [sexpr_eval(a, env) for a in args]
    if op == "and":
        return all(vals)
    if op == "or":
        return any(vals)
    if op == "not":
        return not vals[0]
    if op == "=":
        return vals[0] == vals[1]
    if op == "<":
        return vals[0] < vals[1]
    if op == "<=":
        return vals[0] <= vals[1]
    if op == ">":
        return vals[0] > vals[1]
    if op == ">=":
        return vals[0] >= vals[1]
    if op == "+":
        return sum(vals)
    if op == "-":
        return -vals[0] if len(vals) == 1 else vals[0] - sum(vals[1:])
    if op == "*":
        r = 1
        for v in vals:
            r *= v
        return r
    if op == "mod":
        return vals[0] % vals[1]
    if op == "div":
        return vals[0] // vals[1]
    raise EncodingError("sexpr_eval: unsupported operator %s" % op)


def enum_variants(src, name):
    m = re.search(r"enum %s \{(.*?)\n\}" % name, src, re.S)
    if not m:
        raise EncodingError("enum %s not found in expr.rs" % name)
    body = re.sub(r"//[^\n]*", "", m.group(1))
    return re.findall(r"^\s*(\w+)\s*(?:\(.*\))?\s*,?\s*$", body, re.M)


# reference: what each operator must print as, and the precedence ladder of the
# property statement (OR < AND < NOT < comparison < | < ^ < & < shifts < + - < * / < unary - ~)
C19_TOKEN = {"Eq": " = ", "Ne": " != ", "Lt": " < ", "Le": " <= ", "Gt": " > ", "Ge": " >= ", "Add": " + ", "Sub": " - ",
             "Mul": " * ", "Div": " / ", "BitAnd": " & ", "BitOr": " | ", "BitXor": " ^ ", "Shl": " << ", "Shr": " >> ",
             "And": " AND ", "Or": " OR ", "Neg": "-", "BitNot": "~", "BoolNot": "NOT "}
C19_LEVEL = {"Or": 1, "And": 2, "BoolNot": 3, "Eq": 4, "Ne": 4, "Lt": 4, "Le": 4, "Gt": 4, "Ge": 4, "BitOr": 5, "BitXor": 6,
             "BitAnd": 7, "Shl": 8, "Shr": 8, "Add": 9, "Sub": 9, "Mul": 10, "Div": 10, "Neg": 11, "BitNot": 11,
             "Literal": 12, "Column": 12}
C19_UNARY = ("Neg", "BitNot", "BoolNot")


# right operand at the SAME level as its parent: `P(x, C(y, z))` printed without parentheses reads
# (left-associatively) as `C'(P'(x, y), z)`.  That is the same value exactly for these pairs, which
# are identities of two's-complement wrapping arithmetic with null propagation (x*(y*z) = (x*y)*z,
# x+(y+z) = (x+y)+z incl. string concatenation, x+(y-z) = (x+y)-z, bitwise and logical operators);
# everywhere else (x-(y+z), x-(y-z), x*(y/z), x/(y*z), x/(y/z), shifts, comparisons) parentheses
# are needed.  Redundant parentheses are never demanded away.
C19_ASSOC = {("Mul", "Mul"), ("Add", "Add"), ("Add", "Sub"), ("BitAnd", "BitAnd"), ("BitOr", "BitOr"),
             ("BitXor", "BitXor"), ("And", "And"), ("Or", "Or")}


def c19_needs_parens(parent, slot, child):
    """Reference predicate written from the ladder: binary levels are
    left-associative; a child binding looser than its parent needs parentheses;
    in the right slot of a binary parent an equal level needs them too, except
    where re-association provably does not change the value (C19_ASSOC)."""
    lp, lc = C19_LEVEL[parent], C19_LEVEL[child]
    if lc == 12:
        return False
    if parent in C19_UNARY:
        return lc < lp
    if slot == 0:
        return lc < lp
    if lc == lp:
        return (parent, child) not in C19_ASSOC
    return lc < lp


def c19_models(events_sink):
    def m_write_str(ex, callee, args, pc, events):
        s = deref(args[1])
        ev = ("tok", s.s) if isinstance(s, StrV) else ("dyn", repr(s))
        return [(pc, events + [ev], EnumV(variant=0, fields=[TupleV([])]))]

    def m_branch(ex, callee, args, pc, events):
        r = deref(args[0])
        if r.variant == 0:
            return [(pc, events, EnumV(variant=0, fields=[TupleV([])]))]
        return [(pc, events, EnumV(variant=1, fields=[r]))]

    def m_from_residual(ex, callee, args, pc, events):
        return [(pc, events + [("error-return",)], EnumV(variant=1, fields=[]))]

    def m_recurse(ex, callee, args, pc, events):
        child = deref(args[0])
        prec = deref(args[2])
        return [(pc, events + [("child", child.what if isinstance(child, OpaqueV) else repr(child), prec.term)],
                 EnumV(variant=0, fields=[TupleV([])]))]

    def m_value_fmt(ex, callee, args, pc, events):
        return [(pc, events + [("literal",)], EnumV(variant=0, fields=[TupleV([])]))]

    def m_as_str(ex, callee, args, pc, events):
        return [(pc, events, OpaqueV("column-name"))]

    return [
        (r"Formatter::<'_>::write_str$", m_write_str),
        (r"as Try>::branch$", m_branch),
        (r"as FromResidual<.*>>::from_residual$", m_from_residual),
        (r"Ast::format_with_precedence$", m_recurse),
        (r"<Value as std::fmt::Display>::fmt$", m_value_fmt),
        (r"String::as_str$", m_as_str),
    ]


def c19_templates(mir, ctx):
    """One activation of the printer for every node kind, parent precedence symbolic."""
    src = open(os.path.join(REPO, "src/internal/expr.rs")).read()
    ast_vars = enum_variants(src, "Ast")
    un_vars = enum_variants(src, "UnOp")
    bin_vars = enum_variants(src, "BinOp")
    fn = mir.find(r"::format_with_precedence$")
    box = lambda name: TupleV([TupleV([OpaqueV(name)]), OpaqueV("alloc")])
    kinds = []
    for i, v in enumerate(ast_vars):
        if v == "Literal":
            kinds.append(("Literal", EnumV(variant=i, fields=[OpaqueV("value")])))
        elif v == "Column":
            kinds.append(("Column", EnumV(variant=i, fields=[OpaqueV("name")])))
        elif v == "UnOp":
            for j, u in enumerate(un_vars):
                kinds.append((u, EnumV(variant=i, fields=[EnumV(variant=j), box("child0")])))
        elif v == "BinOp":
            for j, b in enumerate(bin_vars):
                kinds.append((b, EnumV(variant=i, fields=[EnumV(variant=j), box("child0"), box("child1")])))
        elif v in ("And", "Or"):
            kinds.append((v, EnumV(variant=i, fields=[box("child0"), box("child1")])))
        else:
            raise EncodingError("unknown Ast variant %s (the C19 reference table does not cover it)" % v)
    templates = {}
    for name, node in kinds:
        if name not in C19_LEVEL:
            raise EncodingError("operator %s is not in the C19 reference ladder" % name)
        P = ctx.fresh_int("parent_prec_" + name, "i32")
        ex = M.Exec(mir, ctx, models=c19_models(None), inline=[r"::precedence$"])
        outs = ex.run(fn, [RefV(node), OpaqueV("formatter"), P])
        outs = outs + ex._pending_panics
        ex._pending_panics = []
        paths = []
        for o in outs:
            if o.kind == "unreachable":
                continue
            paths.append(o)
        templates[name] = (P, paths)
    return templates


def c19_render(templates, tree, parent_prec=0):
    """Render an expression tree from the templates (translator validation)."""
    kind = tree[0]
    if kind == "col":
        name, children = "Column", []
    elif kind == "lit":
        name, children = "Literal", []
    else:
        name, children = kind, tree[1:]
    P, paths = templates[name]
    chosen = None
    for o in paths:
        if o.kind != "return":
            continue
        if all(sexpr_eval(sexpr_parse(c), {P.term: parent_prec}) for c in o.pc):
            chosen = o
            break
    if chosen is None:
        raise EncodingError("no template path for %s at precedence %d" % (name, parent_prec))
    out = ""
    for ev in chosen.events:
        if ev[0] == "tok":
            out += ev[1]
        elif ev[0] == "dyn":
            out += tree[1]
        elif ev[0] == "literal":
            out += str(tree[1])
        elif ev[0] == "child":
            idx = int(ev[1][-1])
            out += c19_render(templates, children[idx], sexpr_eval(sexpr_parse(ev[2]), {P.term: parent_prec}))
    return out


def _c19_confirm(model, native):
    out = native("native::c19::replay_c19", model)
    if not out.get("_ran"):
        return None, "native replay did not run"
    if out.get("_panicked"):
        return None, "native replay panicked: %s" % out.get("_panic_msg")
    return (out.get("differs") == 1), "printed %r re-read as %r; evaluates differently on %s" % (
        out.get("printed"), out.get("reparsed"), out.get("witness_row"))


def c19_groups(mir, ctx):
    fns = ["expr::Ast::format_with_precedence", "expr::BinOp::precedence"]
    templates = c19_templates(mir, ctx)
    groups = []

    # ---- translator validation: the repo's own display test ----------------
    g = Group("translator_validation", fns, validation=True,
              note="the nine expressions of expr::tests::display rendered from the MIR-derived templates must equal the expected strings")
    col = lambda n: ("col", n)
    cases = [
        (("Or", ("Le", ("Div", col("Foo"), ("lit", 10)), col("Bar")), ("Ge", col("Baz"), col("Foo"))), "Foo / 10 <= Bar OR Baz >= Foo"),
        (("Mul", col("Foo"), ("Add", ("lit", 10), col("Bar"))), "Foo * (10 + Bar)"),
        (("Mul", ("Add", col("Foo"), ("lit", 10)), col("Bar")), "(Foo + 10) * Bar"),
        (("Or", ("And", col("Foo"), col("Bar")), col("Baz")), "Foo AND Bar OR Baz"),
        (("And", ("Or", col("Foo"), col("Bar")), col("Baz")), "(Foo OR Bar) AND Baz"),
        (("Sub", ("Sub", col("Foo"), col("Bar")), col("Baz")), "Foo - Bar - Baz"),
        (("Sub", col("Foo"), ("Sub", col("Bar"), col("Baz"))), "Foo - (Bar - Baz)"),
        (("Or", ("Or", col("Foo"), col("Bar")), col("Baz")), "Foo OR Bar OR Baz"),
        (("Or", col("Foo"), ("Or", col("Bar"), col("Baz"))), "Foo OR (Bar OR Baz)"),
    ]
    src = open(os.path.join(REPO, "src/internal/expr.rs")).read()
    for k, (tree, want) in enumerate(cases):
        if '"%s"' % want not in src:
            continue
        got = c19_render(templates, tree)
        g.queries.append(Query("render_%d" % k, ["true"] if got != want else ["false"], "unsat", note="rendered %r, test expects %r" % (got, want)))
    g.witness.append(Query("render_w", ["true"], "sat"))
    groups.append(g)

    # ---- template shape: tokens, operand order, balanced parentheses -------
    g = Group("template_shape", fns, note="every node kind prints [ '(' ] child0 TOKEN child1 [ ')' ] (prefix: TOKEN child0) with the "
              "token of its own operator, operands in order, parentheses balanced, never an error return")
    for name, (P, paths) in templates.items():
        for k, o in enumerate(paths):
            if o.kind == "panic":
                g.queries.append(Query("panic_%s_%d" % (name, k), o.pc, "unsat", get={"parent_prec": P.term}, note=o.msg))
                continue
            evs = list(o.events)
            ok = True
            why = ""
            if any(e[0] == "error-return" for e in evs):
                ok, why = False, "error return without a failing write"
            par = evs and evs[0] == ("tok", "(")
            if par:
                if evs[-1] != ("tok", ")"):
                    ok, why = False, "unbalanced parentheses"
                evs = evs[1:-1]
            elif evs and evs[-1] == ("tok", ")"):
                ok, why = False, "unbalanced parentheses"
            if ok:
                if name == "Literal":
                    exp = [("literal",)]
                    ok = evs == exp
                elif name == "Column":
                    ok = len(evs) == 1 and evs[0][0] == "dyn"
                elif name in C19_UNARY:
                    ok = len(evs) == 2 and evs[0] == ("tok", C19_TOKEN[name]) and evs[1][0] == "child" and evs[1][1] == "child0"
                else:
                    ok = (len(evs) == 3 and evs[0][0] == "child" and evs[0][1] == "child0" and evs[1] == ("tok", C19_TOKEN[name])
                          and evs[2][0] == "child" and evs[2][1] == "child1")
                if not ok:
                    why = "token sequence %r" % (evs,)
            # a malformed template is a violation for every parent precedence that reaches it
            g.queries.append(Query("shape_%s_%d" % (name, k), (o.pc if not ok else ["false"]), "unsat",
                                   get={"parent_prec": P.term}, note="%s: %s" % (name, why)))
            g.witness.append(Query("shape_w_%s_%d" % (name, k), o.pc, "sat"))
    groups.append(g)

    # ---- parenthesisation adequacy -----------------------------------------
    g = Group("paren_adequacy", fns, confirm=_c19_confirm,
              note="for every (parent operator, slot, child operator): if the ladder of the property statement needs parentheses "
                   "around the child, the child's template emits them at the precedence the parent passes for that slot")
    for pname, (PP, ppaths) in templates.items():
        if pname in ("Literal", "Column"):
            continue
        # precedence passed to each slot (identical on all of the parent's paths; taken from the first)
        slots = {}
        for o in ppaths:
            if o.kind != "return":
                continue
            for ev in o.events:
                if ev[0] == "child":
                    slots.setdefault(int(ev[1][-1]), []).append((o.pc, ev[2]))
        for slot, alts in slots.items():
            for cname, (CP, cpaths) in templates.items():
                if not c19_needs_parens(pname, slot, cname):
                    continue
                for (ppc, pterm) in alts[:2]:
                    for k, co in enumerate(cpaths):
                        if co.kind != "return":
                            continue
                        has_paren = bool(co.events) and co.events[0] == ("tok", "(")
                        if has_paren:
                            continue
                        # child prints WITHOUT parentheses on this path: must be infeasible at the passed precedence
                        g.queries.append(Query("adeq_%s_%d_%s_%d_%d" % (pname, slot, cname, k, len(g.queries)),
                                               ppc + co.pc + ["(= %s %s)" % (CP.term, pterm)], "unsat",
                                               get={"parent_prec": PP.term},
                                               note="parent=%s slot=%d child=%s" % (pname, slot, cname)))
    g.witness.append(Query("adeq_w", ["true"], "sat"))
    groups.append(g)
    groups.append(c19_join_operand_group(mir, ctx))
    return groups


def _c19_join_confirm(model, native):
    out = native("native::c19::replay_c19_join", {})
    if not out.get("_ran"):
        return None, "native replay did not run"
    return (out.get("differs") == 1), "real Display: %s" % (out.get("witness") or "all join operands printed correctly")


def c19_join_operand_group(mir, ctx):
    """Select::format_for_join: a join operand may be printed as a bare table name only when it IS
    a bare table (no projection, no condition, not itself a join); otherwise it must be printed as
    a parenthesised sub-select -- else the text names a different query."""
    from .mir_protocol import struct_fields
    src = open(os.path.join(REPO, "src/internal/query.rs")).read()
    sf = struct_fields(src, "Select")
    jv = enum_variants(src, "Join")
    for need in ("from", "column_names", "condition"):
        if need not in sf:
            raise EncodingError("Select has no field %s" % need)
    fn = mir.find(r"query::.*::format_for_join$")
    g = Group("join_operand", ["query::Select::format_for_join"], confirm=_c19_join_confirm, note="a join operand is printed as a bare table name only if it has no "
              "projection, no condition and is a plain table; otherwise as '(' <the sub-select> ')'")
    for vi, vname in enumerate(jv):
        no_cols = ctx.fresh_bool("no_projection_" + vname)
        no_cond = ctx.fresh_bool("no_condition_" + vname)

        def m_is_empty(ex, callee, args, pc, events, b=no_cols):
            return [(pc, events, BoolV(b.term))]

        def m_is_none(ex, callee, args, pc, events, b=no_cond):
            return [(pc, events, BoolV(b.term))]

        def m_display_self(ex, callee, args, pc, events):
            return [(pc, events + [("sub-select",)], EnumV(variant=0, fields=[TupleV([])]))]

        models = [(r"Vec::<String>::is_empty$", m_is_empty), (r"Option::<Expr>::is_none$", m_is_none),
                  (r"<query::Select as std::fmt::Display>::fmt$", m_display_self)] + c19_models(None)
        ex = M.Exec(mir, ctx, models=models)
        sel = [OpaqueV("select." + f) for f in sf]
        sel[sf.index("from")] = EnumV(variant=vi, fields=[OpaqueV("table-name"), OpaqueV("rhs"), OpaqueV("on")])
        ex.new_obj("select", sel)
        outs = ex.run(fn, [RefV(M.ObjV("select")), OpaqueV("formatter")])
        outs = outs + ex._pending_panics
        ex._pending_panics = []
        get = {"no_projection": no_cols.term, "no_condition": no_cond.term}
        plain = s_and([no_cols.term, no_cond.term]) if vname == "Table" else "false"
        for k, o in enumerate(outs):
            if o.kind == "unreachable":
                continue
            if o.kind == "panic":
                g.queries.append(Query("panic_%s_%d" % (vname, k), o.pc, "unsat", get=get, note=o.msg))
                continue
            evs = list(o.events)
            bare = len(evs) == 1 and evs[0][0] == "dyn"
            wrapped = len(evs) == 3 and evs[0] == ("tok", "(") and evs[1] == ("sub-select",) and evs[2] == ("tok", ")")
            if bare:
                g.queries.append(Query("bare_%s_%d" % (vname, k), o.pc + [s_not(plain)], "unsat", get=get,
                                       note="join operand (%s) printed as a bare table name although it has a projection / a condition / is a join" % vname))
            elif not wrapped:
                g.queries.append(Query("shape_%s_%d" % (vname, k), o.pc, "unsat", get=get, note="join operand printed as %r" % (evs,)))
            g.witness.append(Query("w_%s_%d" % (vname, k), o.pc, "sat"))
    return g


# --------------------------------------------------------------------------
# C14: CodePage::encoding -- which encoding_rs table each code page uses
# --------------------------------------------------------------------------

# reference: the Windows meaning of the identifiers (28591 -> windows-1252 is accepted:
# encoding_rs has no other Latin-1 table and WHATWG defines the label that way)
C14_REF = {
    "Windows932": "SHIFT_JIS", "Windows936": "GBK", "Windows949": "EUC_KR", "Windows950": "BIG5", "Windows951": "BIG5",
    "Windows1250": "WINDOWS_1250", "Windows1251": "WINDOWS_1251", "Windows1252": "WINDOWS_1252", "Windows1253": "WINDOWS_1253",
    "Windows1254": "WINDOWS_1254", "Windows1255": "WINDOWS_1255", "Windows1256": "WINDOWS_1256", "Windows1257": "WINDOWS_1257",
    "Windows1258": "WINDOWS_1258", "MacintoshRoman": "MACINTOSH", "MacintoshCyrillic": "X_MAC_CYRILLIC",
    "Iso88591": "WINDOWS_1252", "Iso88592": "ISO_8859_2", "Iso88593": "ISO_8859_3", "Iso88594": "ISO_8859_4",
    "Iso88595": "ISO_8859_5", "Iso88596": "ISO_8859_6", "Iso88597": "ISO_8859_7", "Iso88598": "ISO_8859_8", "Utf8": "UTF_8",
}
C14_ID = {"Windows932": 932, "Windows936": 936, "Windows949": 949, "Windows950": 950, "Windows951": 951,
          "Windows1250": 1250, "Windows1251": 1251, "Windows1252": 1252, "Windows1253": 1253, "Windows1254": 1254,
          "Windows1255": 1255, "Windows1256": 1256, "Windows1257": 1257, "Windows1258": 1258, "MacintoshRoman": 10000,
          "MacintoshCyrillic": 10007, "UsAscii": 20127, "Iso88591": 28591, "Iso88592": 28592, "Iso88593": 28593,
          "Iso88594": 28594, "Iso88595": 28595, "Iso88596": 28596, "Iso88597": 28597, "Iso88598": 28598, "Utf8": 65001}


def c14_chunk_loop_group(mir, ctx):
    """CodePage::encode's loop around the 1024-byte scratch buffer (non-ASCII branch), unrolled to 2
    encoder calls (3 in the thorough tier).  encoding_rs's encode_from_utf8_without_replacement is an
    uninterpreted call constrained only by its documented contract: 0 <= read <= remaining input,
    0 <= written <= buffer length, and InputEmpty only when the whole remaining input was read."""
    fn = mir.find(r"codepage::.*::encode$")
    LEN = ctx.fresh_int("input_len", None, 0, 0x7fffffff)
    BUF = 1024
    calls = []

    def term(v):
        v = v.target if isinstance(v, RefV) else v
        return v.term

    def m_slice_from(ex, callee, args, pc, events):
        r = ex.load(args[1])
        start = r.fields[0] if isinstance(r, EnumV) and r.fields else r
        if not isinstance(start, IntV):
            raise EncodingError("string[..] with start %r" % (start,))
        return [(pc, events + [("from", start.term)], OpaqueV("rest@%s" % start.term))]

    def m_encode_call(ex, callee, args, pc, events):
        rest = ex.load(args[1])
        mm = re.match(r"^rest@(.*)$", getattr(rest, "what", ""))
        if not mm:
            raise EncodingError("the encoder is handed %r, not a tail of the input string" % (rest,))
        start = mm.group(1)
        i = sum(1 for e in events if e[0] == "enc")
        res = ctx.fresh_int("encoder_result_%d" % i, None, 0, 2)
        rd = ctx.fresh_int("read_%d" % i, None, 0, 0x7fffffff)
        wr = ctx.fresh_int("written_%d" % i, None, 0, BUF)
        contract = ["(<= (+ %s %s) %s)" % (start, rd.term, LEN.term), "(=> (= %s 0) (= (+ %s %s) %s))" % (res.term, start, rd.term, LEN.term), "(<= %s %s)" % (start, LEN.term)]
        return [(pc + contract, events + [("enc", i, start, rd.term, wr.term, res.term)],
                 TupleV([EnumV(discr=IntV(res.term, "isize")), IntV(rd.term, "usize"), IntV(wr.term, "usize")]))]

    def m_take(ex, callee, args, pc, events):
        r = ex.load(args[1])
        end = r.fields[0] if isinstance(r, EnumV) and r.fields else r
        return [(pc, events + [("take", getattr(end, "term", repr(end)))], OpaqueV("chunk"))]

    models = [
        (r"<CodePage as PartialEq>::eq$", lambda ex, callee, args, pc, events: [(pc, events, BoolV("false", False))]),
        (r"<str as Index<std::ops::RangeFrom<usize>>>::index$", m_slice_from),
        (r"Encoder::encode_from_utf8_without_replacement$", m_encode_call),
        (r"as Index<RangeTo<usize>>>::index$|as Index<std::ops::RangeTo<usize>>>::index$", m_take),
        (r"Vec::<u8>::extend_from_slice$", lambda ex, callee, args, pc, events: [(pc, events + [("append", getattr(ex.load(args[1]), "what", "?"))], TupleV([]))]),
        (r"Vec::<u8>::push$", lambda ex, callee, args, pc, events: [(pc, events + [("qmark", term(ex.load(args[1])))], TupleV([]))]),
    ]
    ex = M.Exec(mir, ctx, models=models, havoc_unknown=True)
    ex.max_revisit = deeper(3)
    ex.no_inline = [r"CodePage::encoding$", r"ascii_encode$"]
    outs = ex.run(fn, [RefV(OpaqueV("codepage")), OpaqueV("string")])
    outs = outs + ex._pending_panics
    ex._pending_panics = []
    g = Group("encode_chunk_loop", ["codepage::CodePage::encode (loop around the scratch buffer, unrolled)"], confirm=_c14_chunk_confirm,
              note="for every behaviour of the encoder allowed by its contract, over <= 2 encoder calls: each call is handed exactly the input "
                   "not yet read, exactly the bytes it wrote are appended, '?' is appended exactly after an Unmappable result, and encode returns "
                   "only after a call reported InputEmpty -- i.e. with the whole string consumed, whatever its length; no arithmetic panic")
    n = 0
    for k, o in enumerate(outs):
        if o.kind == "panic":
            g.queries.append(Query("panic_%d" % k, o.pc, "unsat", get={"input_len": LEN.term}, note="encode can panic: %s" % o.msg))
            continue
        if o.kind != "return":
            continue
        n += 1
        encs = [e for e in o.events if e[0] == "enc"]
        seq = [e for e in o.events if e[0] in ("enc", "take", "append", "qmark")]
        total = "0"
        for e in encs:
            g.queries.append(Query("start_%d_%d" % (k, e[1]), o.pc + ["(not (= %s %s))" % (e[2], total)], "unsat", note="encoder call %d is not handed exactly the input that is still unread" % e[1]))
            total = "(+ %s %s)" % (total, e[3])
        # per call: take == written, one append, '?' iff Unmappable
        for idx, e in enumerate(encs):
            nxt = [x for x in seq[seq.index(e) + 1:]]
            upto = []
            for x in nxt:
                if x[0] == "enc":
                    break
                upto.append(x)
            takes = [x for x in upto if x[0] == "take"]
            apps = [x for x in upto if x[0] == "append"]
            qm = [x for x in upto if x[0] == "qmark"]
            if len(takes) != 1 or len(apps) != 1:
                g.queries.append(Query("append_%d_%d" % (k, idx), o.pc, "unsat", note="after encoder call %d the bytes written are not appended exactly once" % idx))
            else:
                g.queries.append(Query("taken_%d_%d" % (k, idx), o.pc + ["(not (= %s %s))" % (takes[0][1], e[4])], "unsat", note="the bytes appended after encoder call %d are not exactly the `written` bytes" % idx))
            if qm:
                g.queries.append(Query("qmark_%d_%d" % (k, idx), o.pc + ["(not (= %s 2))" % e[5]], "unsat", note="'?' is appended although the encoder did not report an unmappable character"))
                if any(q[1] != "63" for q in qm) or len(qm) != 1:
                    g.queries.append(Query("qmark_val_%d_%d" % (k, idx), o.pc, "unsat", note="the replacement appended is not a single '?'"))
            else:
                g.queries.append(Query("noqmark_%d_%d" % (k, idx), o.pc + ["(= %s 2)" % e[5]], "unsat", note="an unmappable character is dropped without the '?' replacement"))
        if not encs:
            g.queries.append(Query("nocall_%d" % k, o.pc, "unsat", note="encode returns without calling the encoder"))
        else:
            g.queries.append(Query("complete_%d" % k, o.pc + ["(not (= %s %s))" % (total, LEN.term)], "unsat", get={"input_len": LEN.term},
                                   note="encode returns although part of the string has not been encoded (the encoder stopped for a reason other than InputEmpty)"))
        g.witness.append(Query("w_%d" % k, o.pc, "sat"))
    if n < 2:
        raise EncodingError("chunk loop: only %d returning paths" % n)
    return [g]


def _c14_chunk_confirm(model, native):
    out = native("native::c14::replay_c14_chunks", {})
    if not out.get("_ran"):
        return None, "native replay did not run"
    if out.get("_panicked"):
        return True, "native chunk replay panicked: %s" % out.get("_panic_msg")
    return (out.get("differs") == 1), (out.get("witness") or "all %s long strings encode as the concatenation of their characters natively" % out.get("checked"))


def _c14_confirm(model, native):
    out = native("native::c14::replay_c14", {"page": model.get("pageid"), "want": model.get("want")})
    if not out.get("_ran"):
        return None, "native replay did not run"
    return (out.get("differs") == 1), "code page %s vs encoding_rs %s: %s" % (model.get("page"), model.get("want"), out.get("witness"))


def c14_groups(mir, ctx):
    fns = ["codepage::CodePage::encoding"]
    src = open(os.path.join(REPO, "src/internal/codepage.rs")).read()
    m = re.search(r"pub enum CodePage \{(.*?)\n\}", src, re.S)
    if not m:
        raise EncodingError("enum CodePage not found")
    variants = re.findall(r"^\s*(\w+),\s*$", m.group(1), re.M)
    if len(variants) < 20:
        raise EncodingError("could not read CodePage variants")
    fn = mir.find(r"codepage::.*::encoding$")
    # allocation -> static name, from the dump section that follows the function
    txt = open(mir_path_of(mir)).read()
    start = txt.index(fn.header)
    nxt = txt.find("\nfn ", start + 10)
    region = txt[start: nxt if nxt > 0 else len(txt)]
    statics = dict(re.findall(r"^(alloc\d+) \(static: (\w+),", region, re.M))

    def c_alloc(ex, t):
        mm = re.match(r"\{(alloc\d+): (&+)", t)
        if not mm or mm.group(1) not in statics:
            raise EncodingError("constant %s is not a named static in the MIR dump" % t)
        v = StrV(statics[mm.group(1)])
        for _ in range(len(mm.group(2))):
            v = RefV(v)
        return v

    def m_panic(ex, callee, args, pc, events):
        return [(pc, events, Outcome("panic", pc, msg="unreachable!() in CodePage::encoding", events=events))]

    models = [(r"const:^\{alloc\d+: &", c_alloc), (r"core::panicking::panic$", m_panic)]
    names = sorted(set(C14_REF.values()))
    enc_id = {n: i + 1 for i, n in enumerate(names)}
    d = ctx.fresh_int("codepage_discr", None, 0, len(variants) - 1)
    ref_term = "0"
    for i, v in enumerate(variants):
        if v in C14_REF:
            ref_term = "(ite (= %s %d) %d %s)" % (d.term, i, enc_id[C14_REF[v]], ref_term)
        elif v != "UsAscii":
            raise EncodingError("code page %s is not in the C14 reference table" % v)
    ex = M.Exec(mir, ctx, models=models)
    outs = ex.run(fn, [RefV(EnumV(discr=d))])
    outs = outs + ex._pending_panics
    ex._pending_panics = []
    g = Group("encoding_table", fns, confirm=_c14_confirm,
              note="every code page uses the encoding_rs table of the Windows code page its identifier names")
    ascii_idx = variants.index("UsAscii") if "UsAscii" in variants else -1
    for k, o in enumerate(outs):
        if o.kind == "unreachable":
            continue
        if o.kind == "panic":
            # encoding() is unreachable!() for US-ASCII only (encode/decode handle it before calling)
            g.queries.append(Query("panic_%d" % k, o.pc + ["(not (= %s %d))" % (d.term, ascii_idx)], "unsat",
                                   get={"discr": d.term}, note="panic path reachable for a code page other than US-ASCII"))
            continue
        v = deref(o.value)
        if not isinstance(v, StrV):
            raise EncodingError("encoding() returned %r" % (v,))
        name = v.s[:-5] if v.s.endswith("_INIT") else v.s
        got_id = enc_id.get(name, 0)
        # which page is this path? (for the replay) -- read it off the path condition
        mm = re.search(r"\(= %s (\d+)\)" % re.escape(d.term), " ".join(o.pc))
        page = variants[int(mm.group(1))] if mm else "?"
        g.queries.append(Query("table_%d" % k, o.pc + ["(not (= %s %d))" % (ref_term, got_id)], "unsat", get={"discr": d.term},
                               note="page=%s uses=%s want=%s pageid=%s" % (page, name, C14_REF.get(page, "?"), C14_ID.get(page, 0))))
        g.witness.append(Query("table_w_%d" % k, o.pc, "sat"))
    # fix up model for confirm(): page id + wanted encoding come from the note
    return [g]


def mir_path_of(mir):
    return mir._path


# --------------------------------------------------------------------------
# C20 / C09: the integer prefix of Table::read_rows (row size, row count, limit)
# --------------------------------------------------------------------------

def _c20_confirm_rows(model, native):
    D, S = model.get("data_length"), model.get("row_size")
    if D is None or not S:
        return None, "model has no usable data_length / row_size"
    rows = D // S
    if rows > 300000:
        return None, "counterexample needs %d rows: too large to replay" % rows
    out = native("native::c20::replay_c20", {"rows": rows})
    if not out.get("_ran"):
        return None, "native replay did not run"
    if out.get("_panicked"):
        return True, "read_rows panicked natively on %d rows: %s" % (rows, out.get("_panic_msg"))
    res = str(out.get("read_rows"))
    want_err = rows > 65536
    got_err = res.startswith("err")
    ok_count = (not got_err) and res == "ok:%d" % rows
    return ((want_err != got_err) or (not got_err and not ok_count)), "%d rows of one Int16 column: read_rows gave %s (the limit is 65536 rows)" % (rows, res)


def _c20_confirm_columns(model, native):
    n = model.get("num_columns")
    if n is None or n > 5000:
        return None, "no usable column count in the model"
    out = native("native::c20::replay_c20", {"num_columns": n})
    if not out.get("_ran"):
        return None, "native replay did not run"
    if out.get("_panicked"):
        return True, "create_table panicked natively with %d columns" % n
    ok = out.get("create_table_ok") == 1
    return (ok != (1 <= n <= 32)), "create_table with %d columns returned %s (limit: 32)" % (n, "Ok" if ok else "Err")


def c20_groups(mir, ctx):
    """read_rows itself is out of Kani's reach (measured); its integer prefix --
    from the seek result to the row-limit check -- is loop-free MIR once the
    iterator chain that sums the column widths is replaced by a fresh u64."""
    fns = ["table::Table::read_rows (prefix: seek .. row-limit check)"]
    fn = mir.find(r"table::.*::read_rows$")
    D = ctx.fresh_int("data_length", "u64")
    S = ctx.fresh_int("row_size", "u64")
    NC = ctx.fresh_int("num_columns", "usize")

    def ok(v):
        return EnumV(variant=0, fields=[v])

    def m_seek(ex, callee, args, pc, events):
        # Ok(any u64) or Err: both explored
        return [(pc, events, ok(D)), (pc, events + [("seek-failed",)], EnumV(variant=1, fields=[OpaqueV("io::Error")]))]

    def m_rewind(ex, callee, args, pc, events):
        return [(pc, events, ok(TupleV([])))]

    def m_branch(ex, callee, args, pc, events):
        r = deref(args[0])
        if r.variant == 0:
            return [(pc, events, EnumV(variant=0, fields=[r.fields[0]]))]
        return [(pc, events, EnumV(variant=1, fields=[r]))]

    def m_opaque(name):
        return lambda ex, callee, args, pc, events: [(pc, events, OpaqueV(name))]

    def m_sum(ex, callee, args, pc, events):
        return [(pc, events, S)]

    def m_len(ex, callee, args, pc, events):
        return [(pc, events, NC)]

    def m_from_residual(ex, callee, args, pc, events):
        return [(pc, events + [("early-error-return",)], EnumV(variant=1, fields=[OpaqueV("io::Error")]))]

    models = [
        (r"as Seek>::seek$", m_seek), (r"as Seek>::rewind$", m_rewind), (r"as Try>::branch$", m_branch),
        (r"as FromResidual<.*>>::from_residual$", m_from_residual),
        (r"as Deref>::deref$", m_opaque("slice")), (r"impl \[Column\]>::iter$", m_opaque("iter")),
        (r"as Iterator>::map::<", m_opaque("map")), (r"as Iterator>::sum::<u64>$", m_sum), (r"Vec::<Column>::len$", m_len),
        (r"Argument::<'_>::new_display::<usize>$", m_opaque("fmtarg")), (r"Arguments::<'_>::new::<", m_opaque("fmtargs")),
        (r"^format$", m_opaque("string")), (r"^must_use::<String>$", m_opaque("string")),
        (r"std::io::Error::new::<String>$", m_opaque("io::Error")),
    ]

    def stop_at(f, bb, term):
        if "Vec::<ValueRef>::with_capacity" in term:
            return "allocate"
        if re.match(r"_0 = Result::<.*>::Err\(", " ".join(f.blocks[bb][0][-1:])) and term.startswith("goto"):
            return "limit-error"
        return None

    ex = M.Exec(mir, ctx, models=models, stop_at=stop_at)
    table = RefV(TupleV([OpaqueV("name"), OpaqueV("columns"), OpaqueV("long_refs")]))
    outs = ex.run(fn, [table, OpaqueV("reader")])
    outs = outs + ex._pending_panics
    ex._pending_panics = []
    LIMIT = 65536
    rows = "(div %s %s)" % (D.term, S.term)
    over = "(and (> %s 0) (> %s %d))" % (S.term, rows, LIMIT)
    g = Group("row_limit_reader", fns, confirm=_c20_confirm_rows, note="for every stream length and row size: no division by zero / overflow panic; the "
              "reader allocates only when data_length / row_size <= 65536 and reports an error exactly when it is larger")
    n_alloc = n_err = 0
    for k, o in enumerate(outs):
        if o.kind == "panic":
            g.queries.append(Query("panic_%d" % k, o.pc, "unsat", get={"data_length": D.term, "row_size": S.term}, note=o.msg))
        elif o.kind == "stopped" and o.msg == "allocate":
            n_alloc += 1
            g.queries.append(Query("alloc_over_limit_%d" % k, o.pc + [over], "unsat", get={"data_length": D.term, "row_size": S.term},
                                   note="allocation reached although the row count exceeds the limit"))
            # the number of rows allocated is the quotient (or 0 for a zero row size)
            nr = deref(o.value.get("_23")) if isinstance(o.value, dict) and "_23" in o.value else None
            if isinstance(nr, IntV):
                g.queries.append(Query("alloc_rows_%d" % k, o.pc + ["(not (= %s (ite (> %s 0) %s 0)))" % (nr.term, S.term, rows)], "unsat",
                                       get={"data_length": D.term, "row_size": S.term}, note="row count differs from data_length / row_size"))
            g.witness.append(Query("alloc_w_%d" % k, o.pc, "sat"))
        elif o.kind == "stopped" and o.msg == "limit-error":
            n_err += 1
            g.queries.append(Query("err_under_limit_%d" % k, o.pc + [s_not(over)], "unsat", get={"data_length": D.term, "row_size": S.term},
                                   note="the row-limit error is reported although the row count is within the limit"))
            g.witness.append(Query("err_w_%d" % k, o.pc, "sat"))
        elif o.kind == "return":
            # early error returns (seek failed): fine
            pass
    if n_alloc == 0 or n_err == 0:
        raise EncodingError("read_rows prefix: expected an allocation path and a limit-error path (found %d / %d)" % (n_alloc, n_err))
    return [g]


# --------------------------------------------------------------------------
# driver
# --------------------------------------------------------------------------

def c20_columns_group(mir, ctx):
    """The argument checks at the head of create_table_with_name (loop-free prefix up to the
    duplicate-name scan): the 32-column limit of the property, as an error, exactly at the boundary."""
    fn = mir.find(r"package::.*::create_table_with_name$")
    name_ok = ctx.fresh_bool("table_name_valid")
    any_pk = ctx.fresh_bool("has_primary_key")
    n = ctx.fresh_int("num_columns", "usize")

    def m_const(v):
        return lambda ex, callee, args, pc, events: [(pc, events, v)]

    def m_is_empty(ex, callee, args, pc, events):
        return [(pc, events, BoolV("(= %s 0)" % n.term))]

    models = [
        (r"<String as Deref>::deref$", m_const(OpaqueV("name"))),
        (r"Table::is_valid_name$", m_const(BoolV(name_ok.term))),
        (r"Vec::<Column>::is_empty$", m_is_empty),
        (r"Vec::<Column>::len$", m_const(n)),
        (r"<Vec<Column> as Deref>::deref$", m_const(OpaqueV("slice"))),
        (r"impl \[Column\]>::iter$", m_const(OpaqueV("iter"))),
        (r"impl \[Column\]>::(get|first|last)(::<usize>)?$|^core::slice::get$", None),      # placeholder, replaced below
        (r"as Iterator>::any::<", m_const(BoolV(any_pk.term))),
        (r"Argument::<'_>::new_(display|debug)::<", m_const(OpaqueV("fmtarg"))),
        (r"Arguments::<'_>::new::<", m_const(OpaqueV("fmtargs"))),
        (r"^format$", m_const(OpaqueV("string"))), (r"^must_use::<String>$", m_const(OpaqueV("string"))),
    ]

    def m_get(ex, callee, args, pc, events):
        # columns.get(i) / first() / last(): Some exactly when the index is inside the (symbolic) length
        if "first" in callee or "last" in callee:
            cond = "(>= %s 1)" % n.term
        else:
            i = ex.load(args[1])
            if not isinstance(i, IntV):
                raise EncodingError("slice::get with index %r" % (i,))
            cond = "(< %s %s)" % (i.term, n.term)
        return [(pc + [cond], events, EnumV(variant=1, fields=[OpaqueV("column")])), (pc + [s_not(cond)], events, EnumV(variant=0, fields=[]))]

    models = [(rx, (m_get if f is None else f)) for rx, f in models]

    def stop_at(f, bb, term):
        if "std::io::Error::new::<" in term:
            return "error"
        if "HashSet::<&str>::new" in term:
            return "passed"
        return None

    ex = M.Exec(mir, ctx, models=models, stop_at=stop_at, havoc_unknown=True)
    ex.no_inline = [r"Column::", r"Table::", r"Category::"]      # what the error message is built from is irrelevant to the limit
    pkg = RefV(OpaqueV("package"))
    outs = ex.run(fn, [pkg, OpaqueV("table_name"), OpaqueV("columns")])
    outs = outs + ex._pending_panics
    ex._pending_panics = []
    LIMIT = 32
    accepted = "(and %s (>= %s 1) (<= %s %d) %s)" % (name_ok.term, n.term, n.term, LIMIT, any_pk.term)
    get = {"num_columns": n.term, "table_name_valid": name_ok.term, "has_primary_key": any_pk.term}
    g = Group("column_limit", ["package::Package::create_table_with_name (argument checks before the duplicate-name scan)"],
              confirm=_c20_confirm_columns, note="for every number of columns: create_table gets past its argument checks exactly when the name is valid, there are "
                   "1..=32 columns and one of them is a primary key; 33 or more columns (and 0) are refused with an error, never a panic")
    np = ne = 0
    for k, o in enumerate(outs):
        if o.kind == "panic":
            g.queries.append(Query("panic_%d" % k, o.pc, "unsat", get=get, note=o.msg))
        elif o.kind == "stopped" and o.msg == "passed":
            np += 1
            g.queries.append(Query("passed_outside_limit_%d" % k, o.pc + [s_not(accepted)], "unsat", get=get,
                                   note="the argument checks are passed with an invalid name / no column / more than 32 columns / no primary key"))
            g.witness.append(Query("passed_w_%d" % k, o.pc + ["(= %s %d)" % (n.term, LIMIT)], "sat"))
        elif o.kind == "stopped" and o.msg == "error":
            ne += 1
            g.queries.append(Query("error_inside_limit_%d" % k, o.pc + [accepted], "unsat", get=get,
                                   note="an argument error is reported for a valid name with 1..=32 columns and a primary key"))
            g.witness.append(Query("error_w_%d" % k, o.pc, "sat"))
    if np == 0 or ne < 3:
        raise EncodingError("create_table prefix: expected one accepting and >= 3 refusing paths (found %d / %d)" % (np, ne))
    return [g]


def c20_incref_total_group(mir, ctx):
    """StringPool::incref with its scan loop unrolled (<= 2 entries), the pool's length symbolic: can it panic?"""
    fn = mir.find(r"stringpool::.*::incref$")
    from .mir_protocol import struct_fields
    psrc = open(os.path.join(REPO, "src/internal/stringpool.rs")).read()
    pf = struct_fields(psrc, "StringPool")
    lens = {}
    it_models, what_of, coll = iter_models(ctx, lens, consistent=True)
    n_entries = ctx.fresh_int("pool_entries", None, 0, 1 << 30)
    long_refs = ctx.fresh_bool("long_string_refs")

    def m_len(ex, callee, args, pc, events):
        return [(pc, events, IntV(n_entries.term, "usize"))]

    def m_panic(ex, callee, args, pc, events):
        return [(pc, events, Outcome("panic", pc, msg="panic in StringPool::incref", events=events))]

    models = [(r"Vec::<\(String, u16\)>::len$", m_len), (r"panic_fmt$|core::panicking::panic$|panicking::panic_display", m_panic),
              (r"<String as PartialEq>::eq$", lambda ex, callee, args, pc, events: [(pc, events, BoolV(ctx.fresh_bool("same_text").term))])] + it_models
    ex = M.Exec(mir, ctx, models=models, havoc_unknown=True)
    ex.max_revisit = 3
    fields = [OpaqueV("pool." + f) for f in pf]
    fields[pf.index("long_string_refs")] = BoolV(long_refs.term)
    ex.new_obj("pool", fields)
    outs = ex.run(fn, [M.ObjV("pool"), OpaqueV("text")])
    outs = outs + ex._pending_panics
    ex._pending_panics = []
    g = Group("incref_total", ["stringpool::StringPool::incref (scan loop unrolled)"],
              note="StringPool::incref returns for every pool size and reference width (it has no error path: anything else is a panic reachable "
                   "from insert_rows / update_rows / create_table)")
    msgs = re.findall(r'panic!\(\s*"((?:[^"\\]|\\.)*)"', psrc)
    n = 0
    for k, o in enumerate(outs):
        if o.kind == "panic":
            short = "(>= %s 65535)" % n_entries.term
            which = "Too many strings; rewriting to long string refs is not yet supported" if True else ""
            # tell the two capacity panics apart by what the path condition forces
            g.queries.append(Query("panic_short_%d" % k, o.pc + [s_not(long_refs.term)], "unsat", get={"pool_entries": n_entries.term},
                                   note="incref panics ('Too many strings; rewriting to long string refs is not yet supported') when a pool with two-byte references is full"))
            g.queries.append(Query("panic_long_%d" % k, o.pc + [long_refs.term], "unsat", get={"pool_entries": n_entries.term},
                                   note="incref panics ('Too many distinct strings in string pool') when a pool with three-byte references is full"))
        elif o.kind == "return":
            n += 1
            if len(g.witness) < 10:
                g.witness.append(Query("w_%d" % k, o.pc, "sat"))
    if n < 2:
        raise EncodingError("incref: only %d returning paths" % n)
    return [g]


def c20_all(mir, ctx):
    return c20_groups(mir, ctx) + c20_columns_group(mir, ctx) + c20_insert_row_limit_group(mir, ctx) + c20_incref_total_group(mir, ctx)


# --------------------------------------------------------------------------
# C11: the base-64 alphabet of stream-name packing (to_b64 / from_b64, loop-free)
# --------------------------------------------------------------------------

def _c11_confirm(model, native):
    out = native("native::c11::replay_c11", {k: v for k, v in model.items() if k in ("c", "v")})
    if not out.get("_ran"):
        return None, "native replay did not run"
    if out.get("_panicked"):
        return True, "encode/decode panicked natively: %s" % out.get("_panic_msg")
    return (out.get("differs") == 1), str(out.get("witness") or "encode/decode round trip is fine natively")


def c11_b64_group(mir, ctx):
    def rng(lo, hi):
        return lambda ex, callee, args, pc, events: [(pc, events, BoolV("(and (>= %s %d) (<= %s %d))" % (deref(args[0]).term, lo, deref(args[0]).term, hi)))]

    def m_from_u32(ex, callee, args, pc, events):
        v = deref(args[0])
        valid = "(and (>= %s 0) (<= %s 1114111) (not (and (>= %s 55296) (<= %s 57343))))" % (v.term, v.term, v.term, v.term)
        return [(pc + [valid], events, EnumV(variant=1, fields=[IntV(v.term, "char", v.const)])),
                (pc + [s_not(valid)], events, EnumV(variant=0, fields=[]))]

    def m_unwrap(ex, callee, args, pc, events):
        o = deref(args[0])
        if o.variant == 1:
            return [(pc, events, o.fields[0])]
        return [(pc, events, Outcome("panic", pc, msg="unwrap on None (char::from_u32 refused the value)", events=events))]

    models = [(r"impl char>::is_ascii_digit$", rng(48, 57)), (r"impl char>::is_ascii_uppercase$", rng(65, 90)),
              (r"impl char>::is_ascii_lowercase$", rng(97, 122)), (r"(^|::)from_u32$", m_from_u32), (r"Option::<char>::unwrap$", m_unwrap)]
    g = Group("b64_alphabet", ["streamname::to_b64", "streamname::from_b64"], confirm=_c11_confirm,
              note="the 64-symbol alphabet of stream-name packing is a bijection: for every char c, to_b64(c) = Some(v) implies v < 64 and "
                   "from_b64(v) = c; for every v < 64, to_b64(from_b64(v)) = Some(v); exactly [0-9A-Za-z._] are packable; no panic")
    to_fn, from_fn = mir.find(r"^to_b64$"), mir.find(r"^from_b64$")
    c = ctx.fresh_int("c", None, 0, 0x10FFFF)
    ctx.side.append("(not (and (>= %s 55296) (<= %s 57343)))" % (c.term, c.term))
    cv = IntV(c.term, "char")
    packable = s_or(["(and (>= %s %d) (<= %s %d))" % (c.term, lo, c.term, hi) for lo, hi in ((48, 57), (65, 90), (97, 122), (46, 46), (95, 95))])
    ex = M.Exec(mir, ctx, models=models)
    outs = ex.run(to_fn, [cv]) + ex._pending_panics
    ex._pending_panics = []
    for k, o in enumerate(outs):
        if o.kind == "panic":
            g.queries.append(Query("to_panic_%d" % k, o.pc, "unsat", get={"c": c.term}, note=o.msg))
            continue
        if o.kind != "return":
            continue
        opt = deref(o.value)
        if opt.variant in (0, "None"):
            g.queries.append(Query("to_none_packable_%d" % k, o.pc + [packable], "unsat", get={"c": c.term}, note="a character of [0-9A-Za-z._] is not packable"))
        else:
            v = opt.fields[0]
            g.queries.append(Query("to_some_unpackable_%d" % k, o.pc + [s_not(packable)], "unsat", get={"c": c.term}, note="a character outside [0-9A-Za-z._] is packed"))
            g.queries.append(Query("to_range_%d" % k, o.pc + ["(not (and (>= %s 0) (< %s 64)))" % (v.term, v.term)], "unsat", get={"c": c.term}, note="to_b64 gives a value outside 0..63"))
            ex2 = M.Exec(mir, ctx, models=models)
            for o2 in ex2.run(from_fn, [IntV(v.term, "u32")], o.pc) + ex2._pending_panics:
                if o2.kind == "panic":
                    g.queries.append(Query("from_to_panic_%d" % len(g.queries), o2.pc, "unsat", get={"c": c.term}, note=o2.msg))
                elif o2.kind == "return":
                    g.queries.append(Query("from_to_%d" % len(g.queries), o2.pc + ["(not (= %s %s))" % (deref(o2.value).term, c.term)], "unsat",
                                           get={"c": c.term}, note="from_b64(to_b64(c)) differs from c"))
                    g.witness.append(Query("ft_w_%d" % len(g.witness), o2.pc, "sat"))
    v = ctx.fresh_int("v", None, 0, 63)
    ex = M.Exec(mir, ctx, models=models)
    for o in ex.run(from_fn, [IntV(v.term, "u32")]) + ex._pending_panics:
        if o.kind == "panic":
            g.queries.append(Query("from_panic_%d" % len(g.queries), o.pc, "unsat", get={"v": v.term}, note=o.msg))
            continue
        if o.kind != "return":
            continue
        ch = deref(o.value)
        ex2 = M.Exec(mir, ctx, models=models)
        for o2 in ex2.run(to_fn, [IntV(ch.term, "char", ch.const)], o.pc) + ex2._pending_panics:
            if o2.kind == "panic":
                g.queries.append(Query("to_from_panic_%d" % len(g.queries), o2.pc, "unsat", get={"v": v.term}, note=o2.msg))
            elif o2.kind == "return":
                opt = deref(o2.value)
                if opt.variant in (0, "None"):
                    g.queries.append(Query("to_from_none_%d" % len(g.queries), o2.pc, "unsat", get={"v": v.term}, note="to_b64(from_b64(v)) is None"))
                else:
                    g.queries.append(Query("to_from_%d" % len(g.queries), o2.pc + ["(not (= %s %s))" % (opt.fields[0].term, v.term)], "unsat",
                                           get={"v": v.term}, note="to_b64(from_b64(v)) differs from v"))
                    g.witness.append(Query("tf_w_%d" % len(g.witness), o2.pc, "sat"))
    return [g]


def c11_packing_group(mir, ctx):
    """streamname::encode and streamname::decode on names of <= 3 characters: the characters are
    symbolic Unicode scalar values, the name's length is fixed per path by the iterator model,
    `String::push` is an event; to_b64 / from_b64 are inlined.  Each function is pinned, token by
    token, to a reference packing written as SMT terms; the round-trip and injectivity statements
    are then decided by the solver over the two references."""
    N = 3 + TIER["extra"]
    enc_fn, dec_fn = mir.find(r"^encode$"), mir.find(r"^decode$")
    ssrc = open(os.path.join(REPO, "src/internal/streamname.rs")).read()
    mp = re.search(r"const TABLE_PREFIX: char = '\\u\{([0-9a-fA-F]+)\}'", ssrc)
    if not mp:
        raise EncodingError("TABLE_PREFIX not found in streamname.rs")
    PREFIX = int(mp.group(1), 16)

    def scalar(name):
        c = ctx.fresh_int(name, None, 0, 0x10FFFF)
        ctx.side.append("(not (and (>= %s 55296) (<= %s 57343)))" % (c.term, c.term))
        return c

    def b64(t):          # reference alphabet (pinned to to_b64/from_b64 by the b64_alphabet law)
        return ("(ite (and (>= {0} 48) (<= {0} 57)) (- {0} 48) (ite (and (>= {0} 65) (<= {0} 90)) (- {0} 55) "
                "(ite (and (>= {0} 97) (<= {0} 122)) (- {0} 61) (ite (= {0} 46) 62 (ite (= {0} 95) 63 (- 1))))))").format(t)

    def unb64(t):
        return ("(ite (< {0} 10) (+ {0} 48) (ite (< {0} 36) (+ {0} 55) (ite (< {0} 62) (+ {0} 61) (ite (= {0} 62) 46 95))))").format(t)

    def pk(t):
        return "(>= %s 0)" % b64(t)

    def ref_encode(cs):
        """[(condition, [output terms])] over the packability pattern of cs"""
        cases = []
        n = len(cs)
        for bits in range(1 << n):
            pat = [(bits >> i) & 1 for i in range(n)]
            cond = [pk(c) if pat[i] else s_not(pk(c)) for i, c in enumerate(cs)]
            out, i = [], 0
            while i < n:
                if pat[i]:
                    if i + 1 < n and pat[i + 1]:
                        out.append("(+ 14336 (* 64 %s) %s)" % (b64(cs[i + 1]), b64(cs[i])))
                        i += 2
                        continue
                    out.append("(+ 18432 %s)" % b64(cs[i]))
                else:
                    out.append(cs[i])
                i += 1
            cases.append((cond, out))
        return cases

    def ref_decode(es):
        cases = []
        n = len(es)
        for kinds in __import__("itertools").product((0, 1, 2), repeat=n):      # 0 other, 1 two-char, 2 one-char
            cond, out = [], []
            for e, kd in zip(es, kinds):
                if kd == 1:
                    cond.append("(and (>= %s 14336) (< %s 18432))" % (e, e))
                    out += [unb64("(mod (- %s 14336) 64)" % e), unb64("(div (- %s 14336) 64)" % e)]
                elif kd == 2:
                    cond.append("(and (>= %s 18432) (< %s 18496))" % (e, e))
                    out.append(unb64("(- %s 18432)" % e))
                else:
                    cond.append("(not (and (>= %s 14336) (< %s 18496)))" % (e, e))
                    out.append(e)
            cases.append((cond, out))
        return cases

    def deref(v):
        while isinstance(v, RefV):
            v = v.target
        return v

    def make_models(chars, use_reference_alphabet=True):
        def m_chars(ex, callee, args, pc, events):
            ex.heap["$pos"] = 0
            return [(pc, events, OpaqueV("chars"))]

        def m_same(ex, callee, args, pc, events):
            return [(pc, events, OpaqueV("chars"))]

        def m_next(ex, callee, args, pc, events):
            pos = ex.heap.get("$pos", 0)
            n = ex.heap.get("$n")
            res = []
            if (n is None and pos < len(chars)) or (n is not None and pos < n):
                hp = copy.deepcopy(ex.heap)
                hp["$pos"] = pos + 1
                res.append((pc, events, EnumV(variant=1, fields=[IntV(chars[pos].term, "char")]), hp))
            if n is None or pos >= n:
                hp = copy.deepcopy(ex.heap)
                hp["$n"] = pos if n is None else n
                res.append((pc, events, EnumV(variant=0, fields=[]), hp))
            return res

        def m_peek(ex, callee, args, pc, events):
            pos = ex.heap.get("$pos", 0)
            n = ex.heap.get("$n")
            res = []
            if (n is None and pos < len(chars)) or (n is not None and pos < n):
                hp = copy.deepcopy(ex.heap)
                hp.setdefault("$min", 0)
                hp["$min"] = max(hp["$min"], pos + 1)
                res.append((pc, events, EnumV(variant=1, fields=[RefV(IntV(chars[pos].term, "char"))]), hp))
            if (n is None and pos >= ex.heap.get("$min", 0)) or (n is not None and pos >= n):
                hp = copy.deepcopy(ex.heap)
                hp["$n"] = pos if n is None else n
                res.append((pc, events, EnumV(variant=0, fields=[]), hp))
            return res

        def m_next_min(ex, callee, args, pc, events):
            # next() after a successful peek at the same position cannot be None
            pos = ex.heap.get("$pos", 0)
            out = m_next(ex, callee, args, pc, events)
            if ex.heap.get("$n") is None and pos < ex.heap.get("$min", 0):
                out = [o for o in out if o[2].variant == 1]
            return out

        def m_push(ex, callee, args, pc, events):
            v = deref(ex.load(args[1]))
            return [(pc, events + [("push", v.term)], TupleV([]))]

        def m_opt_eq(ex, callee, args, pc, events):
            a, b = deref(ex.load(args[0])), deref(ex.load(args[1]))
            def parts(o):
                if isinstance(o, EnumV) and o.variant in (1, "Some"):
                    return deref(o.fields[0])
                return None
            pa, pb = parts(a), parts(b)
            if pa is None or pb is None:
                return [(pc, events, BoolV("true" if (pa is None and pb is None) else "false", pa is None and pb is None))]
            return [(pc, events, BoolV("(= %s %s)" % (pa.term, pb.term)))]

        def m_contains(ex, callee, args, pc, events):
            r, v = deref(ex.load(args[0])), deref(ex.load(args[1]))
            lo, hi = deref(r.fields[0]), deref(r.fields[1])
            return [(pc, events, BoolV("(and (>= %s %s) (< %s %s))" % (v.term, lo.term, v.term, hi.term)))]

        def rng(lo, hi):
            return lambda ex, callee, args, pc, events: [(pc, events, BoolV("(and (>= %s %d) (<= %s %d))" % (deref(ex.load(args[0])).term, lo, deref(ex.load(args[0])).term, hi)))]

        def m_from_u32(ex, callee, args, pc, events):
            v = deref(ex.load(args[0]))
            valid = "(and (>= %s 0) (<= %s 1114111) (not (and (>= %s 55296) (<= %s 57343))))" % (v.term, v.term, v.term, v.term)
            return [(pc + [valid], events, EnumV(variant=1, fields=[IntV(v.term, "char", v.const)])), (pc + [s_not(valid)], events, EnumV(variant=0, fields=[]))]

        def m_unwrap(ex, callee, args, pc, events):
            o = deref(ex.load(args[0]))
            if o.variant in (1, "Some"):
                return [(pc, events, o.fields[0])]
            return [(pc, events, Outcome("panic", pc, msg="unwrap on None (char::from_u32 refused the packed value)", events=events))]

        def m_to_b64(ex, callee, args, pc, events):
            c = deref(ex.load(args[0]))
            if not isinstance(c, IntV):
                raise EncodingError("to_b64 is applied to %r, not to a character of the name" % (c,))
            return [(pc + [pk(c.term)], events, EnumV(variant=1, fields=[IntV(b64(c.term), "u32")])), (pc + [s_not(pk(c.term))], events, EnumV(variant=0, fields=[]))]

        def m_from_b64(ex, callee, args, pc, events):
            v = deref(ex.load(args[0]))
            return [(pc, events + [("from_b64", v.term)], IntV(unb64(v.term), "char"))]

        if use_reference_alphabet:
            alpha = [(r"^to_b64$", m_to_b64), (r"^from_b64$", m_from_b64)]
        else:
            alpha = []
        return alpha + [(r"impl str>::chars$", m_chars), (r"as Iterator>::peekable$|as IntoIterator>::into_iter$", m_same),
                (r"<(Peekable<)?Chars<'_>>? as Iterator>::next$", m_next_min), (r"Peekable::<Chars<'_>>::peek$", m_peek),
                (r"^String::push$", m_push), (r"^String::(new|with_capacity)$", lambda ex, callee, args, pc, events: [(pc, events, OpaqueV("output"))]),
                (r"String as Extend<.*>>::extend::<|^String::push_str$|^String::insert", lambda ex, callee, args, pc, events: [(pc, events + [("push", "(- 1)")], TupleV([]))]),
                (r"<Option<&char> as PartialEq>::eq$", m_opt_eq), (r"Range::<u32>::contains::<u32>$", m_contains),
                (r"impl char>::is_ascii_digit$", rng(48, 57)), (r"impl char>::is_ascii_uppercase$", rng(65, 90)), (r"impl char>::is_ascii_lowercase$", rng(97, 122)),
                (r"(^|::)from_u32$", m_from_u32), (r"Option::<char>::unwrap$", m_unwrap)]

    g = Group("name_packing", ["streamname::encode", "streamname::decode", "streamname::to_b64", "streamname::from_b64"], confirm=_c11_packing_confirm,
              note="for every name of <= 3 characters: encode emits, token by token, the reference packing (two packable neighbours -> one unit "
                   "0x3800 + (b64(second) << 6) + b64(first), a lone packable -> 0x4800 + b64, anything else unchanged; the table marker first iff "
                   "is_table) and never panics; decode inverts it token by token (marker recognised only in first position); hence, over the two "
                   "references, decode(encode(n, t)) = (n, t) for every name none of whose characters lies in 0x3800..=0x4840, and two different "
                   "such names never encode alike")
    # ---- the alphabet functions equal the reference terms used below (so that they may stand in for them)
    ca = scalar("alpha_c")
    exa = M.Exec(mir, ctx, models=make_models([], use_reference_alphabet=False), havoc_unknown=True)
    for k, o in enumerate(exa.run(mir.find(r"^to_b64$"), [IntV(ca.term, "char")]) + exa._pending_panics):
        if o.kind == "panic":
            g.queries.append(Query("to_b64_panic_%d" % k, o.pc, "unsat", note=o.msg))
        elif o.kind == "return":
            opt = deref(o.value)
            if opt.variant in (1, "Some"):
                g.queries.append(Query("to_b64_ref_%d" % k, o.pc + ["(not (= %s %s))" % (deref(opt.fields[0]).term, b64(ca.term))], "unsat", get={"c": ca.term}, note="to_b64 differs from the reference alphabet"))
            else:
                g.queries.append(Query("to_b64_ref_none_%d" % k, o.pc + [pk(ca.term)], "unsat", get={"c": ca.term}, note="to_b64 refuses a character of the reference alphabet"))
    exa._pending_panics = []
    va = ctx.fresh_int("alpha_v", None, 0, 63)
    for k, o in enumerate(exa.run(mir.find(r"^from_b64$"), [IntV(va.term, "u32")]) + exa._pending_panics):
        if o.kind == "panic":
            g.queries.append(Query("from_b64_panic_%d" % k, o.pc, "unsat", note=o.msg))
        elif o.kind == "return":
            g.queries.append(Query("from_b64_ref_%d" % k, o.pc + ["(not (= %s %s))" % (deref(o.value).term, unb64(va.term))], "unsat", get={"v": va.term}, note="from_b64 differs from the reference alphabet on 0..63"))
    exa._pending_panics = []
    # ---- encode pinned to the reference
    chars = [scalar("c%d" % i) for i in range(N)]
    for is_table in (False, True):
        ex = M.Exec(mir, ctx, models=make_models(chars), havoc_unknown=True)
        ex.max_revisit = N + 2
        outs = ex.run(enc_fn, [OpaqueV("name"), M.mk_bool(is_table)])
        outs = outs + ex._pending_panics
        ex._pending_panics = []
        nret = 0
        for k, o in enumerate(outs):
            if o.kind == "panic":
                g.queries.append(Query("encode_panic_%d_%d" % (is_table, k), o.pc, "unsat", get={c.term: c.term for c in chars}, note="encode can panic: %s" % o.msg))
                continue
            if o.kind != "return":
                continue
            n = o.heap.get("$n")
            if n is None:
                raise EncodingError("encode returns without having exhausted its input")
            nret += 1
            pushes = [e[1] for e in o.events if e[0] == "push"]
            if is_table:
                if not pushes or pushes[0] != str(PREFIX):
                    g.queries.append(Query("encode_marker_%d" % k, o.pc, "unsat", note="encode(.., true) does not start with the table marker"))
                    continue
                pushes = pushes[1:]
            cs = [c.term for c in chars[:n]]
            for ci, (cond, want) in enumerate(ref_encode(cs)):
                if len(want) != len(pushes):
                    g.queries.append(Query("encode_len_%d_%d_%d" % (is_table, k, ci), o.pc + cond, "unsat", get={c: c for c in cs},
                                           note="encode emits %d units where the reference packing of this %d-character name has %d" % (len(pushes), n, len(want))))
                else:
                    neq = s_or(["(not (= %s %s))" % (a, b) for a, b in zip(pushes, want)]) if want else "false"
                    g.queries.append(Query("encode_tok_%d_%d_%d" % (is_table, k, ci), o.pc + cond + [neq], "unsat", get={c: c for c in cs},
                                           note="encode emits a unit that differs from the reference packing (order of units, pairing of neighbours, or value)"))
            if len(g.witness) < 30:
                g.witness.append(Query("we_%d_%d" % (is_table, k), o.pc, "sat"))
        if nret < N + 1:
            raise EncodingError("encode: only %d returning paths" % nret)
    # ---- decode pinned to the reference
    es = [scalar("e%d" % i) for i in range(N)]
    ex = M.Exec(mir, ctx, models=make_models(es), havoc_unknown=True)
    ex.max_revisit = N + 2
    outs = ex.run(dec_fn, [OpaqueV("name")])
    outs = outs + ex._pending_panics
    ex._pending_panics = []
    nret = 0
    for k, o in enumerate(outs):
        if o.kind == "panic":
            g.queries.append(Query("decode_panic_%d" % k, o.pc, "unsat", get={c.term: c.term for c in es}, note="decode can panic: %s" % o.msg))
            continue
        if o.kind != "return":
            continue
        n = o.heap.get("$n")
        if n is None:
            raise EncodingError("decode returns without having exhausted its input")
        nret += 1
        pushes = [e[1] for e in o.events if e[0] == "push"]
        flag = deref(o.value.fields[1]) if isinstance(o.value, TupleV) and len(o.value.fields) == 2 else None
        if not isinstance(flag, BoolV):
            raise EncodingError("decode returns %r" % (o.value,))
        for e in o.events:
            if e[0] == "from_b64":
                g.queries.append(Query("decode_arg_%d_%d" % (k, len(g.queries)), o.pc + ["(not (and (>= %s 0) (< %s 64)))" % (e[1], e[1])], "unsat", note="decode calls from_b64 with a value outside 0..63"))
        ets = [c.term for c in es[:n]]
        marked = "(= %s %d)" % (ets[0], PREFIX) if n else "false"
        g.queries.append(Query("decode_flag_%d" % k, o.pc + ["(not (= %s %s))" % (flag.term, marked)], "unsat", get={c: c for c in ets},
                               note="decode reports is_table although the name does not start with the table marker, or the other way round"))
        for marker_case in ((True, ets[1:]), (False, ets)) if n else ((False, ets),):
            mk, body = marker_case
            for ci, (cond, want) in enumerate(ref_decode(body)):
                cnd = o.pc + cond + [marked if mk else s_not(marked)]
                if len(want) != len(pushes):
                    g.queries.append(Query("decode_len_%d_%d_%d" % (k, mk, ci), cnd, "unsat", get={c: c for c in ets}, note="decode emits %d characters where the reference unpacking has %d" % (len(pushes), len(want))))
                else:
                    neq = s_or(["(not (= %s %s))" % (a, b) for a, b in zip(pushes, want)]) if want else "false"
                    g.queries.append(Query("decode_tok_%d_%d_%d" % (k, mk, ci), cnd + [neq], "unsat", get={c: c for c in ets}, note="decode emits a character that differs from the reference unpacking"))
        if len(g.witness) < 60:
            g.witness.append(Query("wd_%d" % k, o.pc, "sat"))
    if nret < N + 1:
        raise EncodingError("decode: only %d returning paths" % nret)
    # ---- is_valid(name, false) = true only for names none of whose characters lies in the packing's own range and that do
    # not start with the table marker (the names for which the round trip below is claimed)
    def clean(t):
        return "(not (and (>= %s 14336) (< %s 18496)))" % (t, t)
    vs = [scalar("v%d" % i) for i in range(N)]
    val_fn = mir.find(r"^is_valid$")
    vmodels = [(r"impl str>::is_empty$", lambda ex, callee, args, pc, events: [(pc, events, BoolV(ctx.fresh_bool("name_is_empty").term))]),
               (r"impl str>::starts_with::<char>$", lambda ex, callee, args, pc, events: [(pc, events + [("starts_with",)], BoolV("(= %s %d)" % (vs[0].term, PREFIX)))]),
               (r"^encode$", lambda ex, callee, args, pc, events: [(pc, events, OpaqueV("encoded"))])] + make_models(vs)
    ex = M.Exec(mir, ctx, models=vmodels, havoc_unknown=True)
    ex.max_revisit = N + 2
    outs = ex.run(val_fn, [OpaqueV("name"), M.mk_bool(False)])
    nv = 0
    for k, o in enumerate(outs):
        if o.kind != "return":
            continue
        r = deref(o.value)
        if not isinstance(r, BoolV):
            raise EncodingError("is_valid returns %r" % (r,))
        n = o.heap.get("$n")
        if n is None:
            # returned without going through the characters: must not be `true`
            g.queries.append(Query("valid_unchecked_%d" % k, o.pc + [r.term], "unsat",
                                   note="is_valid accepts a stream name without having looked at all of its characters (a character in 0x3800..0x4840 makes two accepted names encode alike, e.g. \"00\" and \"\\u{3800}\")"))
            continue
        nv += 1
        body = [clean(c.term) for c in vs[:n]] + (["(not (= %s %d))" % (vs[0].term, PREFIX)] if n else [])
        g.queries.append(Query("valid_clean_%d" % k, o.pc + [r.term, s_not(s_and(body)) if body else "false"], "unsat", get={c.term: c.term for c in vs[:n]},
                               note="is_valid accepts a stream name containing a character of the packing's own range 0x3800..0x4840, or starting with the table marker"))
        g.witness.append(Query("wv_%d" % k, o.pc, "sat"))
    if nv < 2:
        g.queries.append(Query("valid_never_scans", [], "unsat", note="is_valid never goes through the characters of the name: names containing characters of the packing's own range "
                                                                          "0x3800..0x4840 are accepted, and two accepted names encode alike (e.g. \"00\" and \"\\u{3800}\")"))
    # ---- over the references: round trip and injectivity for accepted stream names
    def ref_decode_marked(es):
        """decode reference including the table marker in first position: [(cond, outputs, is_table term)]"""
        out = []
        for cond, dec in ref_decode(es):
            out.append((cond + (["(not (= %s %d))" % (es[0], PREFIX)] if es else []), dec, "false"))
        if es:
            for cond, dec in ref_decode(es[1:]):
                out.append((cond + ["(= %s %d)" % (es[0], PREFIX)], dec, "true"))
        return out
    for n in range(1, N + 1):
        cs = [scalar("r%d_%d" % (n, i)).term for i in range(n)]
        acc = [clean(c) for c in cs] + ["(not (= %s %d))" % (cs[0], PREFIX)]
        for ci, (cond, enc) in enumerate(ref_encode(cs)):
            for di, (dcond, dec, tbl) in enumerate(ref_decode_marked(enc)):
                base = acc + cond + dcond
                if len(dec) != n or tbl == "true":
                    g.queries.append(Query("roundtrip_shape_%d_%d_%d" % (n, ci, di), base, "unsat", note="reference round trip of an accepted stream name changes its length or reports a table"))
                else:
                    g.queries.append(Query("roundtrip_%d_%d_%d" % (n, ci, di), base + [s_or(["(not (= %s %s))" % (a, b) for a, b in zip(dec, cs)])], "unsat",
                                           note="reference round trip decode(encode(n)) != n for an accepted stream name"))
    for n in (1, 2):
        for m in (1, 2):
            cs = [scalar("i%d%d_a%d" % (n, m, i)).term for i in range(n)]
            ds = [scalar("i%d%d_b%d" % (n, m, i)).term for i in range(m)]
            acc = [clean(c) for c in cs + ds] + ["(not (= %s %d))" % (cs[0], PREFIX), "(not (= %s %d))" % (ds[0], PREFIX)]
            differ = "true" if n != m else s_or(["(not (= %s %s))" % (a, b) for a, b in zip(cs, ds)])
            for ci, (c1, e1) in enumerate(ref_encode(cs)):
                for dj, (c2, e2) in enumerate(ref_encode(ds)):
                    if len(e1) != len(e2):
                        continue
                    g.queries.append(Query("inj_%d_%d_%d_%d" % (n, m, ci, dj), acc + c1 + c2 + [differ] + ["(= %s %s)" % (a, b) for a, b in zip(e1, e2)], "unsat",
                                           note="two different accepted stream names have the same reference encoding"))
    return [g]


def _c11_packing_confirm(model, native):
    out = native("native::c11::replay_packing", {})
    if not out.get("_ran"):
        return None, "native replay did not run"
    if out.get("_panicked"):
        return True, "native packing replay panicked: %s" % out.get("_panic_msg")
    return (out.get("differs") == 1), (out.get("witness") or "all %s names round-trip and encode distinctly natively" % out.get("checked"))


def c11_listing_group(mir, ctx):
    """Streams::next, its skip loop unrolled (<= 2 container entries per call): which entries are
    listed and under what name.  Container entries, Entry::is_stream, the comparisons of the entry's
    RAW name with the special stream names and streamname::decode are uninterpreted."""
    cands = [f for n, fs in mir.fns.items() for f in fs if n.endswith("::next") and f.args and "Streams<" in f.args[0][1]]
    if len(cands) != 1:
        raise EncodingError("Streams::next not found uniquely (%d)" % len(cands))
    fn = cands[0]
    ssrc = open(os.path.join(REPO, "src/internal/streamname.rs")).read()
    special = {}
    for cname in ("DIGITAL_SIGNATURE_STREAM_NAME", "MSI_DIGITAL_SIGNATURE_EX_STREAM_NAME", "SUMMARY_INFO_STREAM_NAME", "DOCUMENT_SUMMARY_INFO_STREAM_NAME"):
        mm = re.search(r"const %s: &str =\s*\"((?:[^\"\\]|\\.)*)\"" % cname, ssrc)
        # the four names are constants of the file format; a source that no longer declares one of them still has to hide that stream
        special[cname] = mm.group(1) if mm else {"DIGITAL_SIGNATURE_STREAM_NAME": "\\u{5}DigitalSignature", "MSI_DIGITAL_SIGNATURE_EX_STREAM_NAME": "\\u{5}MsiDigitalSignatureEx",
                                                  "SUMMARY_INFO_STREAM_NAME": "\\u{5}SummaryInformation", "DOCUMENT_SUMMARY_INFO_STREAM_NAME": "\\u{5}DocumentSummaryInformation"}[cname]
    eqs = {}
    n_entry = [0]

    def what(ex, a):
        v = ex.load(a)
        while isinstance(v, RefV):
            v = ex.load(v.target)
        return v.s if isinstance(v, StrV) else getattr(v, "what", repr(v))

    def eq_term(raw, const):
        key = (raw, const)
        if key not in eqs:
            eqs[key] = ctx.fresh_bool("raw_name_is_special").term
        return eqs[key]

    def unesc(t):
        return re.sub(r"\\u\{([0-9a-fA-F]+)\}", lambda m: chr(int(m.group(1), 16)), t)

    mir_text = open(mir._path).read()

    def canon(c):
        # a constant operand: its text, or the name of the constant
        mp = re.search(r"promoted\[(\d+)\]", c)
        if mp:
            md = re.search(r"^const %s::promoted\[%s\]: [^\n]*\{(.*?)^\}" % (re.escape(fn.name), mp.group(1)), mir_text, re.M | re.S)
            if not md:
                raise EncodingError("promoted constant %s of %s not found in the MIR dump" % (mp.group(0), fn.name))
            c = " ".join(re.findall(r"= const ([^;]+);", md.group(1)))
        for cname, txt in special.items():
            if unesc(c) == unesc(txt) or unesc(c.strip('"')) == unesc(txt) or re.split(r"::|\s", c.strip())[-1] == cname:
                return cname
        return c

    def m_entries_next(ex, callee, args, pc, events):
        k = sum(1 for e in events if e[0] == "entry")
        return [(pc, events + [("entry", "entry#%d" % k)], EnumV(variant=1, fields=[OpaqueV("entry#%d" % k)])),
                (pc, events + [("entries-done",)], EnumV(variant=0, fields=[]))]

    def m_is_stream(ex, callee, args, pc, events):
        b = ctx.fresh_bool("is_stream")
        return [(pc, events + [("is_stream", what(ex, args[0]), b.term)], BoolV(b.term))]

    def m_name(ex, callee, args, pc, events):
        return [(pc, events, OpaqueV("raw-name(%s)" % what(ex, args[0])))]

    def m_eq(ex, callee, args, pc, events):
        a, b = what(ex, args[0]), what(ex, args[1])
        if b.startswith("raw-name(") and not a.startswith("raw-name("):
            a, b = b, a
        t = eq_term(a, canon(b))
        return [(pc, events + [("cmp", a, canon(b), t)], BoolV(t))]

    def m_decode(ex, callee, args, pc, events):
        a = what(ex, args[0])
        b = ctx.fresh_bool("is_table")
        return [(pc, events + [("decode", a, b.term)], TupleV([OpaqueV("decoded(%s)" % a), BoolV(b.term)]))]

    models = [(r"<Entries<'_, F> as Iterator>::next$", m_entries_next), (r"Entry::is_stream$", m_is_stream), (r"Entry::name$", m_name),
              (r"as PartialEq(<.*>)?>::eq$", m_eq), (r"^decode$|streamname::decode$", m_decode)]
    lens = {}
    it_models, what_of, coll = iter_models(ctx, lens)
    ex = M.Exec(mir, ctx, models=models + it_models, havoc_unknown=True)
    ex.max_revisit = 3
    ex.new_obj("streams", [OpaqueV("entries"), OpaqueV("phantom")])
    outs = ex.run(fn, [M.ObjV("streams")])
    from .mir_protocol import _confirm as _scenarios
    g = Group("stream_listing", ["stream::<Streams as Iterator>::next (skip loop unrolled)"], confirm=_scenarios,
              note="per container entry visited by Streams::next: it is skipped exactly when it is not a stream, or its RAW container name "
                   "equals one of the four special stream names, or its name decodes as a table stream; otherwise next() returns it, and the "
                   "name returned is streamname::decode of that entry's raw name; None is returned only when the container has no more entries")
    nret = 0
    for k, o in enumerate(outs):
        if o.kind != "return":
            continue
        nret += 1
        evs = o.events
        entries = [e[1] for e in evs if e[0] == "entry"]
        v = o.value
        some = isinstance(v, EnumV) and v.variant in (1, "Some")
        if not some and not any(e[0] == "entries-done" for e in evs):
            g.queries.append(Query("early_none_%d" % k, o.pc, "unsat", note="next() returns None although the container still has entries"))
        for i, en in enumerate(entries):
            raw = "raw-name(%s)" % en
            iss = [e[2] for e in evs if e[0] == "is_stream" and e[1] == en]
            dec = [e[2] for e in evs if e[0] == "decode" and e[1] == raw]
            is_stream = iss[0] if iss else ctx.fresh_bool("is_stream_unasked").term
            is_table = dec[0] if dec else ctx.fresh_bool("is_table_unasked").term
            specials = [eq_term(raw, cname) for cname in special]
            listable = "(and %s (not %s) %s)" % (is_stream, is_table, " ".join("(not %s)" % t for t in specials))
            returned_this = some and i == len(entries) - 1
            if returned_this:
                g.queries.append(Query("lists_%d_%d" % (k, i), o.pc + ["(not %s)" % listable], "unsat",
                                       note="next() lists an entry that is not a stream, or is one of the special streams, or is a table stream"))
                got = getattr(v.fields[0], "what", repr(v.fields[0]))
                if got != "decoded(%s)" % raw:
                    g.queries.append(Query("name_%d_%d" % (k, i), o.pc, "unsat", note="next() returns %s, not the decoded raw name of the entry it lists" % got[:80]))
            else:
                g.queries.append(Query("skips_%d_%d" % (k, i), o.pc + [listable], "unsat",
                                       note="next() skips an entry that is a stream, is none of the four special streams (by its raw name) and is not a table stream"))
        g.witness.append(Query("w_%d" % k, o.pc, "sat"))
    if nret < 4:
        raise EncodingError("stream listing: only %d returning paths" % nret)
    return [g]


def c11_all(mir, ctx):
    from .mir_protocol import protocol_groups
    return c11_b64_group(mir, ctx) + protocol_groups(mir, ctx, {"reject"}) + c11_listing_group(mir, ctx) + c11_packing_group(mir, ctx)


def iter_models(ctx, lens, consistent=False):
    """Models of slices/iterators by (underlying collection, position) kept in the per-path heap: the
    k-th element of a collection has ONE identity however often and however (iter, zip, enumerate,
    indexing) it is visited.  Returns (models, what_of, coll).  With consistent=True the first
    complete pass over a collection fixes its length for the rest of the path (later passes yield
    exactly that many elements); the collection must not change length in between."""

    def memo_len(key):
        if key not in lens:
            lens[key] = ctx.fresh_int("len_" + re.sub(r"\W+", "_", key)[-24:], "usize")
        return lens[key]

    def what_of(ex, a):
        v = ex.load(a)
        return getattr(v, "what", repr(v))

    def coll(desc):
        """canonical name of the underlying collection of a slice / vec / deref'd object"""
        d = desc
        while d.startswith("slice:"):
            d = d[len("slice:"):]
        return d

    def m_iter(ex, callee, args, pc, events):
        its = ex.heap.setdefault("$iters", [])
        its.append(0)
        return [(pc, events, OpaqueV("it#%d|%s" % (len(its) - 1, coll(what_of(ex, args[0])))))]

    def m_into_iter(ex, callee, args, pc, events):
        w = what_of(ex, args[0])
        if w.startswith(("it#", "zip(", "enum(")):
            return [(pc, events, args[0])]
        return m_iter(ex, callee, args, pc, events)

    def m_zip(ex, callee, args, pc, events):
        return [(pc, events, OpaqueV("zip(%s\x1f%s)" % (what_of(ex, args[0]), what_of(ex, args[1]))))]

    def m_enumerate(ex, callee, args, pc, events):
        return [(pc, events, OpaqueV("enum(%s)" % what_of(ex, args[0])))]

    def split2(inner):
        depth = 0
        for i, ch in enumerate(inner):
            if ch == "(":
                depth += 1
            elif ch == ")":
                depth -= 1
            elif ch == "\x1f" and depth == 0:
                return inner[:i], inner[i + 1:]
        raise EncodingError("zip descriptor %r" % inner)

    def advance(ex, desc, evs):
        """-> (item value, position) for the iterator described by desc; advances it in the heap"""
        if desc.startswith("zip("):
            a, b = split2(desc[4:-1])
            va, _pa = advance(ex, a, evs)
            vb, _pb = advance(ex, b, evs)
            return TupleV([va, vb]), None
        if desc.startswith("enum("):
            v, pos = advance(ex, desc[5:-1], evs)
            return TupleV([M.mk_int(pos, "usize"), v]), pos
        mm = re.match(r"^it#(\d+)\|(.*)$", desc)
        if not mm:
            # an iterator obtained from a call this encoding does not know (map.keys(), chars(), ...): a position over an
            # opaque collection named after the iterator value itself
            imp = ex.heap.setdefault("$implicit", {})
            if desc not in imp:
                its = ex.heap.setdefault("$iters", [])
                its.append(0)
                imp[desc] = len(its) - 1
            iid, under = imp[desc], "seq(%s)" % desc
        else:
            iid, under = int(mm.group(1)), mm.group(2)
        pos = ex.heap["$iters"][iid]
        ex.heap["$iters"][iid] = pos + 1
        ident = "%s[%d]" % (under, pos)
        evs.append(("elem", ident))
        stored = ex.heap.get("$vals", {}).get(under)
        if stored is not None and pos < len(stored) and isinstance(stored[pos], (BoolV, IntV)):
            return RefV(stored[pos]), pos       # a scalar pushed earlier on this path: the iterator yields a reference to it
        return OpaqueV(ident), pos

    def leaves(desc):
        if desc.startswith("zip("):
            a, b = split2(desc[4:-1])
            return leaves(a) + leaves(b)
        if desc.startswith("enum("):
            return leaves(desc[5:-1])
        mm = re.match(r"^it#(\d+)\|(.*)$", desc)
        if mm:
            return [(int(mm.group(1)), mm.group(2))]
        return []

    def m_is_empty(ex, callee, args, pc, events):
        name = coll(what_of(ex, args[0]))
        known = ex.heap.setdefault("$lens", {})
        minlen = ex.heap.setdefault("$minlen", {})
        if name in known:
            return [(pc, events, BoolV("true" if known[name] == 0 else "false", known[name] == 0))]
        if minlen.get(name, 0) > 0:
            return [(pc, events, BoolV("false", False))]
        saved = copy_heap(ex)
        h1 = copy_heap(ex)
        h1["$lens"][name] = 0
        h2 = copy_heap(ex)
        h2["$minlen"][name] = 1
        ex.heap = saved
        return [(pc, events + [("is-empty", name, True)], BoolV("true", True), h1), (pc, events + [("is-empty", name, False)], BoolV("false", False), h2)]

    def m_next(ex, callee, args, pc, events):
        desc = what_of(ex, args[0])
        can_some, can_none = True, True
        if consistent:
            known = ex.heap.setdefault("$lens", {})
            minlen = ex.heap.setdefault("$minlen", {})
            lv = leaves(desc)
            st = [(ex.heap["$iters"][iid], known.get(under)) for iid, under in lv]
            if any(n is not None and pos >= n for pos, n in st):
                can_some = False            # some component is exhausted
            elif st and all(n is not None for _pos, n in st):
                can_none = False            # every component has elements left
            elif len(lv) == 1 and ex.heap["$iters"][lv[0][0]] < minlen.get(lv[0][1], 0):
                can_none = False            # known to be non-empty
        saved = copy_heap(ex)
        res = []
        if can_some:
            evs = []
            item, _ = advance(ex, desc, evs)
            hp_some = copy_heap(ex)
            ex.heap = saved
            res.append((pc, events + evs, EnumV(variant=1, fields=[item]), hp_some))
        if can_none:
            ex.heap = copy_heap(ex)
            if consistent:
                lv = leaves(desc)
                if len(lv) == 1 and lv[0][1] not in ex.heap["$lens"]:
                    ex.heap["$lens"][lv[0][1]] = ex.heap["$iters"][lv[0][0]]
            hp_none = copy_heap(ex)
            ex.heap = saved
            res.append((pc, events + [("iter-done", desc)], EnumV(variant=0, fields=[]), hp_none))
        return res

    def copy_heap(ex):
        import copy as _c
        return _c.deepcopy(ex.heap)

    def m_index(ex, callee, args, pc, events):
        base = coll(what_of(ex, args[0]))
        idx = ex.load(args[1])
        if isinstance(idx, IntV) and idx.const is not None:
            ident = "%s[%d]" % (base, idx.const)
        else:
            ident = "%s[?%s]" % (base, getattr(idx, "term", repr(idx)))
        return [(pc, events + [("elem", ident)], OpaqueV(ident))]

    def m_len(ex, callee, args, pc, events):
        return [(pc, events, memo_len(coll(what_of(ex, args[0]))))]

    def m_deref(ex, callee, args, pc, events):
        return [(pc, events, OpaqueV("slice:" + coll(what_of(ex, args[0]))))]

    def m_vec_push(ex, callee, args, pc, events):
        # a vector created empty on this path grows by one; its length stays known
        name = coll(what_of(ex, args[0]))
        known = ex.heap.setdefault("$lens", {})
        if re.search(r"^ret#\d+:.*Vec::(<.*>::)?(new|with_capacity)$", name) and (name in known or not any(
                u == name for u in [re.sub(r"\[\d+\]$", "", e[1]) for e in events if e[0] == "elem"])):
            known[name] = known.get(name, 0) + 1
            ex.heap.setdefault("$vals", {}).setdefault(name, []).append(ex.load(args[1]))
        else:
            known.pop(name, None)
            ex.heap.setdefault("$vals", {}).pop(name, None)
        return [(pc, events + [("push", name, what_of(ex, args[1]))], TupleV([]))]

    def m_branch(ex, callee, args, pc, events):
        r = ex.load(args[0])
        if isinstance(r, EnumV) and r.variant in (0, "Ok"):
            return [(pc, events, EnumV(variant=0, fields=[r.fields[0] if r.fields else TupleV([])]))]
        if isinstance(r, EnumV) and r.variant in (1, "Err"):
            return [(pc, events, EnumV(variant=1, fields=[r]))]
        return [(pc, events, EnumV(variant=0, fields=[OpaqueV("ok-of(%s)" % getattr(r, "what", "?"))])),
                (pc, events, EnumV(variant=1, fields=[EnumV(variant=1, fields=[OpaqueV("io::Error")])]))]

    def m_from_residual(ex, callee, args, pc, events):
        return [(pc, events, EnumV(variant=1, fields=[OpaqueV("io::Error")]))]

    try_models = [(r"<Result<.*> as Try>::branch$", m_branch), (r"<Result<.*> as FromResidual<.*>>::from_residual$", m_from_residual)]
    models = try_models + ([(r"Vec::<.*>::push$", m_vec_push), (r"Vec::<.*>::is_empty$|impl \[.*\]>::is_empty$", m_is_empty)] if consistent else []) + [
        (r"as Deref(Mut)?>::deref(_mut)?$", m_deref),
        (r"impl \[.*\]>::iter(_mut)?$", m_iter), (r"as IntoIterator>::into_iter$", m_into_iter),
        (r"as Iterator>::zip::<", m_zip), (r"as Iterator>::enumerate$", m_enumerate), (r"as Iterator>::next$", m_next),
        (r"as Index(Mut)?<usize>>::index(_mut)?$", m_index),
        (r"Vec::<.*>::len$|impl \[.*\]>::len$", m_len),
    ]
    return models, what_of, coll


# --------------------------------------------------------------------------
# C07: the validation gate of Insert::exec (bounded unrolling of its loops)
# --------------------------------------------------------------------------

def c07_insert_gate_group(mir, ctx):
    """The validation phase of Insert::exec -- from the table lookup to the point where it starts
    reading/mutating (Table::stream_name) -- with its loops unrolled (each block at most 3 times per
    path), rows/columns/values as opaque objects, lengths symbolic, `Column::is_valid_value` an
    uninterpreted predicate.  Iterators are modelled by (underlying collection, position), kept in
    the per-path heap: the k-th element of a collection has ONE identity however often and however
    (iter, zip, enumerate, indexing) it is visited, so the laws do not depend on how the loops are
    written (one pass or several)."""
    cands = [f for n, fs in mir.fns.items() for f in fs if n.endswith("::exec") and f.args and "Insert" in f.args[0][1]]
    if len(cands) != 1:
        raise EncodingError("Insert::exec not found uniquely in the MIR dump (%d)" % len(cands))
    fn = cands[0]
    lens = {}
    it_models, what_of, coll = iter_models(ctx, lens)

    def m_is_valid_value(ex, callee, args, pc, events):
        b = ctx.fresh_bool("valid")
        return [(pc, events + [("is_valid_value", what_of(ex, args[0]), what_of(ex, args[1]), b.term)], BoolV(b.term))]

    def m_get_table(ex, callee, args, pc, events):
        return [(pc, events, EnumV(variant=1, fields=[OpaqueV("rc-table")])), (pc, events + [("no-such-table",)], EnumV(variant=0, fields=[]))]

    def m_deref(ex, callee, args, pc, events):
        return [(pc, events, OpaqueV("slice:" + coll(what_of(ex, args[0]))))]

    models = [
        (r"BTreeMap::<String, Rc<Table>>::get::<", m_get_table),
        (r"<Rc<Table> as Deref>::deref$", lambda ex, callee, args, pc, events: [(pc, events, OpaqueV("table"))]),
        (r"Table::columns$", lambda ex, callee, args, pc, events: [(pc, events, OpaqueV("slice:columns"))]),
        (r"Column::is_valid_value$", m_is_valid_value),
        (r"Column::name$", lambda ex, callee, args, pc, events: [(pc, events, OpaqueV("column-name"))]),
    ] + it_models

    def stop_at(f, bb, term):
        if "Table::stream_name" in term:
            return "proceed"
        if "std::io::Error::new::<" in term:
            return "error"
        return None

    ex = M.Exec(mir, ctx, models=models, stop_at=stop_at, havoc_unknown=True)
    ex.max_revisit = deeper(3)
    from .mir_protocol import struct_fields
    qsrc = open(os.path.join(REPO, "src/internal/query.rs")).read()
    ifields = struct_fields(qsrc, "Insert")
    ex.new_obj("insert", [OpaqueV("insert." + f) for f in ifields])
    outs = ex.run(fn, [M.ObjV("insert"), OpaqueV("comp"), OpaqueV("pool"), OpaqueV("tables")])
    from .mir_protocol import _confirm as _scenarios
    g = Group("insert_gate", ["query::Insert::exec (validation phase, loops unrolled)"], confirm=_scenarios,
              note="Insert::exec starts reading/mutating only after, for every row of the batch it visited, the arity equals the number of "
                   "columns and Column::is_valid_value returned true for every value of that row; any failure is an error before any mutation")
    rows_coll = "insert.new_rows"
    nproceed = 0
    for k, o in enumerate(outs):
        if o.kind == "panic":
            g.queries.append(Query("panic_%d" % k, o.pc, "unsat", note=o.msg))
            continue
        if o.kind != "stopped" or o.msg != "proceed":
            continue
        nproceed += 1
        evs = o.events
        elems = [e[1] for e in evs if e[0] == "elem"]
        rows = sorted(set(x for x in elems if re.fullmatch(re.escape(rows_coll) + r"\[\d+\]", x)))
        values = sorted(set(x for x in elems if re.fullmatch(re.escape(rows_coll) + r"\[\d+\]\[[^\]]+\]", x)))
        valids = [e for e in evs if e[0] == "is_valid_value"]
        colslen = lens.get("columns") or getattr(ex, "_memo", {}).get("len:Opaque(slice:columns)")
        for r in rows:
            if r in lens and colslen is not None:
                g.queries.append(Query("arity_%d_%s" % (k, re.sub(r"\W+", "_", r)), o.pc + ["(not (= %s %s))" % (lens[r].term, colslen.term)],
                                       "unsat", note="a row whose number of values differs from the number of columns gets past the gate"))
            else:
                g.queries.append(Query("arity_unchecked_%d_%s" % (k, re.sub(r"\W+", "_", r)), o.pc, "unsat",
                                       note="the arity of a visited row is never compared with the number of columns"))
        for v in values:
            mine = [e2 for e2 in valids if e2[2] == v]
            if not mine:
                g.queries.append(Query("unvalidated_%d_%s" % (k, re.sub(r"\W+", "_", v)), o.pc, "unsat",
                                       note="a value of the batch gets past the gate without Column::is_valid_value being asked about it"))
            else:
                # at least one of the verdicts about this value must be implied true
                g.queries.append(Query("invalid_passes_%d_%s" % (k, re.sub(r"\W+", "_", v)), o.pc + [s_not(s_and([m[3] for m in mine]))], "unsat",
                                       note="a value for which Column::is_valid_value returned false gets past the gate"))
        g.witness.append(Query("w_%d" % k, o.pc, "sat"))
    if nproceed < 3:
        raise EncodingError("insert gate: only %d paths reach the mutation phase" % nproceed)
    return [g]


# --------------------------------------------------------------------------
# C08: reference accounting inside Update::exec (bounded unrolling)
# --------------------------------------------------------------------------

def c08_update_accounting_group(mir, ctx):
    """Update::exec with every loop unrolled to 2 visits, everything outside the crate arbitrary:
    whenever it reaches the final write, every `ValueRef::create` (a new reference taken in the pool
    for an overwritten cell) is matched by a `ValueRef::remove` of that cell's previous reference."""
    cands = [f for n, fs in mir.fns.items() for f in fs if n.endswith("::exec") and f.args and "Update" in f.args[0][1]]
    if len(cands) != 1:
        raise EncodingError("Update::exec not found uniquely in the MIR dump (%d)" % len(cands))
    fn = cands[0]

    def what_of(ex, a):
        v = ex.load(a)
        return getattr(v, "what", repr(v))

    cell_n = [0]

    def m_index_mut(ex, callee, args, pc, events):
        cell_n[0] += 1
        ident = "cell#%d(%s)" % (cell_n[0], what_of(ex, args[0])[:40])
        return [(pc, events + [("cell", ident)], OpaqueV(ident))]

    def m_remove(ex, callee, args, pc, events):
        return [(pc, events + [("remove", what_of(ex, args[0]))], TupleV([]))]

    def m_create(ex, callee, args, pc, events):
        return [(pc, events + [("create", what_of(ex, args[0]))], OpaqueV("new-ref"))]

    def m_bool(name):
        return lambda ex, callee, args, pc, events: [(pc, events, BoolV(ctx.fresh_bool(name).term))]

    models = [
        (r"as IndexMut<usize>>::index_mut$", m_index_mut), (r"ValueRef::remove$", m_remove), (r"ValueRef::create$", m_create),
        (r"Table::has_column$", m_bool("has_column")), (r"Column::is_valid_value$", m_bool("valid")), (r"Value::to_bool$", m_bool("cond")),
        (r"Table::get_column$", lambda ex, callee, args, pc, events: [(pc, events, EnumV(variant=1, fields=[OpaqueV("column")]))]),
        (r"Table::index_for_column_name$", lambda ex, callee, args, pc, events: [(pc, events, EnumV(variant=1, fields=[ctx.fresh_int("col_index", "usize")]))]),
        (r"Option::<.*>::unwrap$", lambda ex, callee, args, pc, events: [(pc, events, (lambda o: o.fields[0] if isinstance(o, EnumV) and o.variant in (1, "Some") and o.fields else OpaqueV("unwrapped"))(ex.load(args[0])))]),
    ]
    models = [m for m in models if m[1] is not None]

    def stop_at(f, bb, term):
        if "Table::write_rows::<" in term:
            return "proceed"
        return None

    ex = M.Exec(mir, ctx, models=models, stop_at=stop_at, havoc_unknown=True, max_paths=60000)
    ex.max_revisit = 2
    ex.no_inline = [r"Table::(stream_name|name|columns|long_string_refs)$", r"Expr::(eval|column_names)$", r"Row::new$", r"Table::read_rows",
                    r"ValueRef::to_value$", r"closure"]
    from .mir_protocol import struct_fields
    qsrc = open(os.path.join(REPO, "src/internal/query.rs")).read()
    ufields = struct_fields(qsrc, "Update")
    ex.new_obj("update", [OpaqueV("update." + f) for f in ufields])
    outs = ex.run(fn, [M.ObjV("update"), OpaqueV("comp"), OpaqueV("pool"), OpaqueV("tables")])
    from .mir_protocol import _confirm as _scenarios
    g = Group("update_accounting", ["query::Update::exec (loops unrolled to 2 visits)", "value::ValueRef::create", "value::ValueRef::remove"],
              confirm=_scenarios,
              note="on every path of Update::exec that reaches the final write, each overwritten cell releases its previous reference exactly "
                   "once and takes exactly one new reference: the events are pairs remove(cell) ... create(value), never a create without its remove")
    nproceed = npaired = 0
    for k, o in enumerate(outs):
        if o.kind != "stopped" or o.msg != "proceed":
            continue
        nproceed += 1
        seq = [e for e in o.events if e[0] in ("cell", "remove", "create")]
        ok = True
        why = ""
        pending_cell = None
        removed = False
        unreplaced = "a cell's reference is released, but no new reference is taken for the value stored in its place (the pool entry of the new value is under-counted and is freed while cells still refer to it)"
        for e in seq:
            if e[0] == "cell":
                if removed:
                    ok, why = False, unreplaced
                pending_cell, removed = e[1], False
            elif e[0] == "remove":
                if pending_cell is None or e[1] != pending_cell or removed:
                    ok, why = False, "a reference is released that is not the visited cell's (or twice): %r" % (e,)
                removed = True
            elif e[0] == "create":
                if not removed:
                    ok, why = False, "a new reference is taken for a cell whose previous reference was not released (reference count leaks)"
                removed = False
                pending_cell = None
        if removed and ok:
            ok, why = False, unreplaced
        if not ok:
            g.queries.append(Query("unpaired_%d" % k, o.pc, "unsat", note=why))
        else:
            npaired += 1
        if seq and len(g.witness) < 40:
            g.witness.append(Query("w_%d" % k, o.pc, "sat"))
    g.queries.append(Query("paired_paths", ["false"], "unsat", note="%d paths reach the final write with structurally paired remove/create events" % npaired))
    if nproceed < 2 or not g.witness:
        raise EncodingError("update accounting: %d paths reach the final write, %d with updated cells" % (nproceed, len(g.witness)))
    return [g]


def c08_delete_accounting_group(mir, ctx):
    """The `retain` closure of Delete::exec (one row per call), its loop over the row's cells
    unrolled to 3 visits: a row that is deleted (closure returns false) releases the reference of
    EVERY cell it visited, exactly once; a row that is kept (returns true) releases nothing."""
    cands = [f for n, fs in mir.fns.items() for f in fs if re.search(r"::exec::\{closure#0\}$", n) and len(f.args) == 2
             and "Vec<ValueRef>" in f.args[1][1] and f.ret == "bool"]
    # Delete::exec's closure is the one that calls ValueRef::remove
    cands = [f for f in cands if "ValueRef::remove" in f.text]
    if len(cands) != 1:
        raise EncodingError("the retain closure of Delete::exec was not found uniquely (%d candidates)" % len(cands))
    fn = cands[0]
    lens = {}
    it_models, what_of, coll = iter_models(ctx, lens)

    def m_remove(ex, callee, args, pc, events):
        return [(pc, events + [("remove", what_of(ex, args[0]))], TupleV([]))]

    def m_bool(name):
        return lambda ex, callee, args, pc, events: [(pc, events, BoolV(ctx.fresh_bool(name).term))]

    models = [(r"ValueRef::remove$", m_remove), (r"Value::to_bool$", m_bool("condition_true"))] + it_models
    ex = M.Exec(mir, ctx, models=models, havoc_unknown=True)
    ex.max_revisit = 4
    ex.no_inline = [r"Expr::eval$", r"Row::new$", r"ValueRef::to_value$", r"closure", r"Table::"]
    outs = ex.run(fn, [RefV(OpaqueV("closure-env")), RefV(OpaqueV("row"))])
    from .mir_protocol import _confirm as _scenarios
    g = Group("delete_accounting", ["query::Delete::exec::{closure#0} (the retain predicate; cell loop unrolled)", "value::ValueRef::remove"],
              confirm=_scenarios,
              note="per row of Delete::exec: if the row is deleted, the reference held by every visited cell is released exactly once; if it is "
                   "kept, nothing is released")
    n = 0
    for k, o in enumerate(outs):
        if o.kind == "panic":
            continue
        if o.kind != "return":
            continue
        n += 1
        kept = o.value
        elems = [e[1] for e in o.events if e[0] == "elem" and re.fullmatch(r"row\[\d+\]", e[1])]
        removes = [e[1] for e in o.events if e[0] == "remove"]
        kept_term = kept.term if isinstance(kept, BoolV) else None
        if kept_term is None:
            raise EncodingError("the retain closure returns %r" % (kept,))
        # deleted (returns false): every visited cell removed exactly once, nothing else
        bad_del = sorted(removes) != sorted(set(elems)) or len(set(removes)) != len(removes)
        if bad_del:
            g.queries.append(Query("deleted_row_leaks_%d" % k, o.pc + [s_not(kept_term)], "unsat",
                                   note="a deleted row releases %r but visited cells %r" % (removes, elems)))
        if removes:
            g.queries.append(Query("kept_row_released_%d" % k, o.pc + [kept_term], "unsat", note="a row that is kept releases references %r" % (removes,)))
        g.witness.append(Query("w_%d" % k, o.pc, "sat"))
    if n < 3:
        raise EncodingError("delete accounting: only %d return paths" % n)
    return [g]


# --------------------------------------------------------------------------
# C12: the nested-loop kernel of Join::exec (inner and left joins, <= 2 x 2 rows)
# --------------------------------------------------------------------------

def c12_join_group(mir, ctx):
    """Join::exec for the Inner and Left variants with both row loops unrolled (each block visited
    at most 3 times: up to 2 left rows x 2 right rows), the two sub-selects / tables / expression
    evaluation arbitrary, the join condition an uninterpreted boolean per pair."""
    cands = [f for n, fs in mir.fns.items() for f in fs if n.endswith("::exec") and f.args and re.search(r"\bJoin\b", f.args[0][1])]
    if len(cands) != 1:
        raise EncodingError("Join::exec not found uniquely in the MIR dump (%d)" % len(cands))
    fn = cands[0]
    src = open(os.path.join(REPO, "src/internal/query.rs")).read()
    jv = enum_variants(src, "Join")
    from .mir_protocol import _confirm_query as _scenarios
    g = Group("join_rows", ["query::Join::exec (Inner and Left; row loops unrolled)"], confirm=_scenarios,
              note="for each left row in order and each right row in order the concatenated row (left cells first) is emitted exactly when "
                   "the join condition holds for that pair; a left join additionally emits each left row that matched nothing once, after "
                   "its right rows, starting with the left row's cells; nothing else is emitted")
    gate = Group("join_condition_names", ["query::Join::exec (Inner and Left; loops unrolled)"], confirm=_scenarios,
                 note="on every path that evaluates the join condition, every column name the condition mentions (<= 2 names) was looked up "
                      "in the joined table and found beforehand (so the lookup in Row's Index<&str>, which panics, cannot miss)")
    total = 0
    for vname in ("Inner", "Left"):
        if vname not in jv:
            raise EncodingError("Join has no variant %s" % vname)
        lens = {}
        it_models, what_of, coll = iter_models(ctx, lens, consistent=True)

        def m_cond(ex, callee, args, pc, events):
            b = ctx.fresh_bool("join_condition")
            return [(pc, events + [("cond", b.term)], BoolV(b.term))]

        def m_push(ex, callee, args, pc, events):
            return [(pc, events + [("push", what_of(ex, args[1]))], TupleV([]))]

        def m_desc(fmt, n):
            return lambda ex, callee, args, pc, events: [(pc, events, OpaqueV(fmt % tuple(what_of(ex, a) for a in args[:n])))]

        def m_names(ex, callee, args, pc, events):
            return [(pc, events + [("names", what_of(ex, args[0]))], OpaqueV("names(%s)" % coll(what_of(ex, args[0]))))]

        def m_has(ex, callee, args, pc, events):
            b = ctx.fresh_bool("has_column")
            return [(pc, events + [("has", coll(what_of(ex, args[0])), what_of(ex, args[1]), b.term)], BoolV(b.term))]

        def m_eval(ex, callee, args, pc, events):
            return [(pc, events + [("eval", coll(what_of(ex, args[0])), what_of(ex, args[1]))], OpaqueV("value#%d" % len(events)))]

        def m_row(ex, callee, args, pc, events):
            return [(pc, events, OpaqueV("row(%s)" % coll(what_of(ex, args[0]))))]

        def m_same(ex, callee, args, pc, events):
            return [(pc, events, OpaqueV(coll(what_of(ex, args[0]))))]

        side_n = [0]

        def m_sides(ex, callee, args, pc, events):
            side_n[0] += 1
            k = sum(1 for e in events if e[0] == "side") + 1
            return [(pc, events + [("side", "side%d-rows" % k)], TupleV([OpaqueV("side%d-table" % k), OpaqueV("side%d-rows" % k)]))]

        models = [
            (r"Rows::<'_>::into_table_and_values$|Rows::into_table_and_values$", m_sides),
            (r"Expr::column_names$", m_names), (r"Table::has_column$", m_has), (r"Expr::eval$", m_eval), (r"Row::new$", m_row),
            (r"<Rc<Table> as Clone>::clone$", m_same),
            (r"Value::to_bool$", m_cond), (r"Vec::<Vec<ValueRef>>::push$", m_push),
            (r"as Iterator>::chain::<", m_desc("chain(%s,%s)", 2)), (r"as Iterator>::cloned::<", m_desc("%s", 1)),
            (r"as Iterator>::map::<", m_desc("map(%s)", 1)), (r"as Iterator>::collect::<Vec<ValueRef>>$", m_desc("vec(%s)", 1)),
        ] + it_models
        ex = M.Exec(mir, ctx, models=models, havoc_unknown=True, max_paths=200000)
        ex.max_revisit = deeper(3)
        ex.no_inline = [r"Select::exec", r"Rows::", r"Table::", r"Row::new$", r"Expr::eval$", r"StringPool::", r"closure", r"Column::"]
        join = EnumV(variant=jv.index(vname), fields=[OpaqueV("lhs"), OpaqueV("rhs"), OpaqueV("on")])
        outs = ex.run(fn, [join, OpaqueV("comp"), OpaqueV("pool"), OpaqueV("tables")] + [OpaqueV("extra-arg-%d" % i) for i in range(max(0, len(fn.args) - 4))])
        # ---- name gate: a join condition is evaluated only after every column name it mentions was
        # looked up in the joined table and found
        for k, o in enumerate(outs):
            evs = o.events
            first = next((n for n, e in enumerate(evs) if e[0] == "eval"), None)
            if first is None:
                continue
            _e, cond, row = evs[first]
            before = evs[:first]
            tag = "%s_%d" % (vname, k)
            ncoll = "names(%s)" % cond
            listed = any(e[0] == "names" and coll(e[1]) == cond for e in before)
            done = any(e[0] == "iter-done" and e[1].endswith("|" + ncoll) for e in before)
            if not (listed and done):
                gate.queries.append(Query("gate_%s" % tag, o.pc, "unsat",
                                          note="%s join: the join condition is evaluated although its column names were never (all) looked up in the joined table; "
                                               "an unknown name reaches the panicking Row index" % vname))
                continue
            for e in before:
                if e[0] == "elem" and e[1].startswith(ncoll + "["):
                    hs = [h for h in before if h[0] == "has" and h[2] == e[1]]
                    if not hs:
                        gate.queries.append(Query("gate_%s_%s" % (tag, e[1][-3:]), o.pc, "unsat", note="%s join: a column name of the condition is not looked up before evaluation" % vname))
                    for h in hs:
                        gate.queries.append(Query("gate_%s_%d" % (tag, len(gate.queries)), o.pc + [s_not(h[3])], "unsat",
                                                  note="%s join: the condition is evaluated although one of its column names is not a column of the joined table" % vname))
                        if row.startswith("row(") and h[1] != row[4:-1]:
                            gate.queries.append(Query("gate_tbl_%s_%d" % (tag, len(gate.queries)), o.pc, "unsat",
                                                      note="%s join: names are looked up in %s but the condition is evaluated on a row of %s" % (vname, h[1], row[4:-1])))
            gate.witness.append(Query("wg_%s" % tag, o.pc, "sat"))
        for k, o in enumerate(outs):
            if o.kind != "return" or not (isinstance(o.value, EnumV) and o.value.variant in (0, "Ok")):
                continue
            evs = o.events
            # the two row collections: results of the two into_table_and_values calls, in order
            sides = [e[1] for e in evs if e[0] == "side"]
            if len(sides) != 2:
                raise EncodingError("join kernel: %d row sources on an Ok path" % len(sides))
            left, right = sides
            klens = o.heap.get("$lens", {})
            n1, n2 = klens.get(left), klens.get(right)
            nonempty1 = o.heap.get("$minlen", {}).get(left, 0) > 0 or (n1 or 0) > 0
            # completeness: an Ok result must have visited every left row (and for each every right row), unless a side is known to be empty
            complete = True
            if n1 is None and not (vname == "Inner" and n2 == 0):
                complete = False
            if n1 and n2 is None:
                complete = False
            if not complete:
                g.queries.append(Query("%s_incomplete_%d" % (vname, k), o.pc, "unsat",
                                       note="%s join returns Ok without having gone through all of its %s rows (left rows known: %s%s, right rows known: %s)"
                                            % (vname, "left" if n1 is None else "right", n1, " (non-empty)" if nonempty1 and n1 is None else "", n2)))
            if n1 == 0 or (n1 is None and not any(e[0] == "elem" for e in evs)):
                g.witness.append(Query("w_%s_%d" % (vname, k), o.pc, "sat"))
                continue
            total += 1
            ok, why, queries = True, "", []
            cur_i = cur_j = None
            pushed_in_outer = False
            pending = None      # (i, j, cond term, pushed?)

            def close_pair():
                # decide the finished pair
                if pending is None:
                    return
                i, j, b, pushed = pending
                if b is None:
                    queries.append((o.pc, "the join condition was not evaluated for pair (%s, %s)" % (i, j)))
                elif pushed:
                    queries.append((o.pc + [s_not(b)], "pair (%s, %s) is emitted although the join condition is false" % (i, j)))
                else:
                    queries.append((o.pc + [b], "pair (%s, %s) is not emitted although the join condition holds" % (i, j)))

            def close_outer():
                if cur_i is not None and vname == "Left" and not pushed_in_outer and not padded_seen[0]:
                    queries.append((o.pc, "left join: left row %s matched nothing but is not emitted with null padding" % cur_i))

            padded_seen = [False]
            for e in evs:
                if e[0] == "elem" and re.fullmatch(re.escape(left) + r"\[\d+\]", e[1]):
                    close_pair()
                    pending = None
                    close_outer()
                    cur_i, cur_j, pushed_in_outer = e[1], None, False
                    padded_seen[0] = False
                elif e[0] == "elem" and re.fullmatch(re.escape(right) + r"\[\d+\]", e[1]):
                    close_pair()
                    cur_j = e[1]
                    pending = (cur_i, cur_j, None, False)
                elif e[0] == "cond" and pending is not None:
                    pending = (pending[0], pending[1], e[1], pending[3])
                elif e[0] == "push":
                    item = e[1]
                    if pending is not None and not pending[3] and cur_j is not None and ("|" + cur_j) in item and item.find("|" + cur_i) < item.find("|" + cur_j) and ("|" + cur_i) in item:
                        pending = (pending[0], pending[1], pending[2], True)
                        pushed_in_outer = True
                    elif vname == "Left" and cur_i is not None and ("|" + cur_i) in item and right not in item.replace(cur_i, ""):
                        # the null-padded row for an unmatched left row
                        close_pair()
                        pending = None
                        if pushed_in_outer or padded_seen[0]:
                            queries.append((o.pc, "left join: left row %s is emitted with null padding although it matched (or twice)" % cur_i))
                        padded_seen[0] = True
                    else:
                        queries.append((o.pc, "a row is emitted that is not the concatenation left-then-right of the visited pair: %s" % item[:160]))
            close_pair()
            close_outer()
            for n, (qpc, note) in enumerate(queries):
                g.queries.append(Query("%s_%d_%d" % (vname, k, n), qpc, "unsat", note="%s join: %s" % (vname, note)))
            g.witness.append(Query("w_%s_%d" % (vname, k), o.pc, "sat"))
    if total < 8:
        raise EncodingError("join kernel: only %d paths visit a pair of rows" % total)
    return [g, gate]


def c12_select_gate_group(mir, ctx):
    """Select::exec up to the point where it filters / projects, its validation loops unrolled
    (<= 2 requested columns, <= 2 names in the condition), the FROM clause an arbitrary result."""
    cands = [f for n, fs in mir.fns.items() for f in fs if n.endswith("::exec") and f.args and re.search(r"\bSelect\b", f.args[0][1])]
    if len(cands) != 1:
        raise EncodingError("Select::exec not found uniquely in the MIR dump (%d)" % len(cands))
    fn = cands[0]
    from .mir_protocol import _confirm_query as _scenarios, struct_fields
    lens = {}
    it_models, what_of, coll = iter_models(ctx, lens)

    def m_names(ex, callee, args, pc, events):
        return [(pc, events + [("names", what_of(ex, args[0]))], OpaqueV("names(%s)" % coll(what_of(ex, args[0]))))]

    def m_has(ex, callee, args, pc, events):
        b = ctx.fresh_bool("has_column")
        return [(pc, events + [("has", coll(what_of(ex, args[0])), what_of(ex, args[1]), b.term)], BoolV(b.term))]

    def m_lookup(ex, callee, args, pc, events):
        b = ctx.fresh_bool("found")
        i = ctx.fresh_int("col_index", "usize")
        name = what_of(ex, args[1])
        return [(pc + [b.term], events + [("lookup", name, True, i.term)], EnumV(variant=1, fields=[i])),
                (pc + [s_not(b.term)], events + [("lookup", name, False, None)], EnumV(variant=0, fields=[]))]

    def m_same(ex, callee, args, pc, events):
        return [(pc, events, OpaqueV(what_of(ex, args[0])))]

    def m_push(ex, callee, args, pc, events):
        v = ex.load(args[1])
        return [(pc, events + [("push-index", getattr(v, "term", repr(v)))], TupleV([]))]

    def m_retain(ex, callee, args, pc, events):
        return [(pc, events + [("filter",)], TupleV([]))]

    def m_indices_empty(ex, callee, args, pc, events):
        # column_indices.is_empty(): the vector holds exactly the indices pushed on this path
        n = sum(1 for e in events if e[0] == "push-index")
        return [(pc, events, BoolV("true" if n == 0 else "false", n == 0))]

    def m_pdesc(fmt, tag=None):
        def f(ex, callee, args, pc, events):
            d = fmt % what_of(ex, args[0])
            return [(pc, events + ([(tag, d)] if tag else []), OpaqueV(d))]
        return f

    def m_table_new(ex, callee, args, pc, events):
        return [(pc, events + [("table-new", what_of(ex, args[1]))], OpaqueV("projected-table"))]

    models = [
        (r"Expr::column_names$", m_names), (r"Table::has_column$", m_has), (r"Table::index_for_column_name$", m_lookup),
        (r"String::as_str$|<String as Deref>::deref$", m_same), (r"Vec::<usize>::push$", m_push), (r"Vec::<Vec<ValueRef>>::retain::<", m_retain),
        (r"Vec::<usize>::is_empty$", m_indices_empty), (r"^Table::new$", m_table_new),
        (r"as Iterator>::map::<", m_pdesc("map(%s)")), (r"as Iterator>::collect::<Vec<Column>>$", m_pdesc("vec(%s)")),
        (r"as Iterator>::collect::<Vec<ValueRef>>$", m_pdesc("vec(%s)", "row-project")),
    ] + it_models
    ex = M.Exec(mir, ctx, models=models, havoc_unknown=True, max_paths=100000,
                stop_at=lambda f, bb, term: "done" if re.search(r"Rows::<'_>::new\(", term) else None)
    ex.max_revisit = deeper(3)
    ex.no_inline = [r"Join::exec", r"::exec::<", r"Rows::", r"Table::(new|name|columns|long_string_refs)$", r"Row::new$", r"Expr::eval$", r"closure", r"Column::"]
    qsrc = open(os.path.join(REPO, "src/internal/query.rs")).read()
    sfields = struct_fields(qsrc, "Select")
    ex.new_obj("select", [OpaqueV("select." + f) for f in sfields])
    outs = ex.run(fn, [M.ObjV("select"), OpaqueV("comp"), OpaqueV("pool"), OpaqueV("tables")])
    g = Group("select_names", ["query::Select::exec (validation loops unrolled)"], confirm=_scenarios,
              note="on every path on which Select::exec goes on to filter or to build its result: every requested column name (<= 2) was looked "
                   "up in the source table and found, the projection indices are those lookups' results in the requested order, and every "
                   "name in the WHERE condition (<= 2) was looked up and found before the filter runs")
    nfilter = nproj = 0
    for k, o in enumerate(outs):
        evs = o.events
        reached = (o.kind == "stopped" and o.msg == "done")
        fpos = next((n for n, e in enumerate(evs) if e[0] == "filter"), None)
        if fpos is not None:
            nfilter += 1
            before = evs[:fpos]
            names = [e for e in before if e[0] == "names"]
            ok = False
            if names:
                ncoll = "names(%s)" % coll(names[0][1])
                done = any(e[0] == "iter-done" and e[1].endswith("|" + ncoll) for e in before)
                ok = done
                for e in before:
                    if e[0] == "elem" and e[1].startswith(ncoll + "["):
                        hs = [h for h in before if h[0] == "has" and h[2] == e[1]]
                        if not hs:
                            ok = False
                        for h in hs:
                            g.queries.append(Query("where_%d_%d" % (k, len(g.queries)), o.pc + [s_not(h[3])], "unsat",
                                                   note="the WHERE condition is evaluated although one of its column names is not a column of the source table"))
            if not ok:
                g.queries.append(Query("where_gate_%d_%d" % (k, len(g.queries)), o.pc, "unsat", note="the filter runs although the WHERE condition's column names were not all looked up first"))
        if reached:
            # requested names: elements of select.column_names visited before the end
            req = [e[1] for e in evs if e[0] == "elem" and re.search(r"select\.column_names\[\d+\]$", e[1])]
            req = sorted(set(req), key=req.index)
            done = any(e[0] == "iter-done" and "select.column_names" in e[1] for e in evs)
            if not done:
                g.queries.append(Query("proj_gate_%d" % k, o.pc, "unsat", note="the result is built although the requested column names were not all visited"))
            looked = [e for e in evs if e[0] == "lookup"]
            pushes = [e[1] for e in evs if e[0] == "push-index"]
            want = []
            for r in req:
                ls = [l for l in looked if l[1] == r]
                if not ls or not ls[0][2]:
                    g.queries.append(Query("proj_missing_%d_%d" % (k, len(g.queries)), o.pc, "unsat", note="a requested column name that the table lacks does not stop the select: %s" % r))
                else:
                    want.append(ls[0][3])
            if pushes != want:
                g.queries.append(Query("proj_order_%d" % k, o.pc, "unsat", note="the projection indices %r are not the looked-up indices of the requested names in order %r" % (pushes, want)))
            if req:
                nproj += 1
                # the projection itself: a new table over exactly the looked-up columns, and every row visited re-assembled from them
                tn = [e for e in evs if e[0] == "table-new"]
                if len(tn) != 1 or not re.match(r"^vec\(map\(it#\d+\|(slice:)*ret#\d+:.*with_capacity", tn[0][1]):
                    g.queries.append(Query("proj_table_%d" % k, o.pc, "unsat",
                                           note="columns were requested but the result table is not built from the requested columns' indices in order (Table::new got %r)" % ([e[1][:80] for e in tn],)))
                rowelems = [e[1] for e in evs if e[0] == "elem" and "into_table_and_values" in e[1] and re.search(r"\.1\[\d+\]$", e[1])]
                rp = [e for e in evs if e[0] == "row-project"]
                if rowelems and len(rp) < len(set(rowelems)):
                    g.queries.append(Query("proj_rows_%d" % k, o.pc, "unsat", note="columns were requested but %d visited rows are not re-assembled from the requested columns" % (len(set(rowelems)) - len(rp))))
            g.queries.append(Query("ok_%d" % k, ["false"], "unsat"))
            g.witness.append(Query("w_%d" % k, o.pc, "sat"))
    if nfilter < 2 or nproj < 2:
        raise EncodingError("select gate: %d paths reach the filter, %d paths build a projection" % (nfilter, nproj))
    return [g]


# --------------------------------------------------------------------------
# C05: Update::exec keeps cells valid and primary keys unique and ordered
# --------------------------------------------------------------------------

def last_mut_guard(evs):
    ms = [n for n, e in enumerate(evs) if e[0] == "mutate"]
    return ms[-1] if ms else 0


def c05_update_group(mir, ctx):
    """Update::exec with its loops unrolled (<= 2 assignments, <= 2 rows; each MIR block visited at
    most 3 times per path), iteration lengths consistent along a path, `Column::is_valid_value`,
    `Table::has_column`, `Column::is_primary_key` uninterpreted predicates of their arguments'
    identities, the key-set operations and the sort events."""
    cands = [f for n, fs in mir.fns.items() for f in fs if n.endswith("::exec") and f.args and re.search(r"\bUpdate\b", f.args[0][1])]
    if len(cands) != 1:
        raise EncodingError("Update::exec not found uniquely in the MIR dump (%d)" % len(cands))
    fn = cands[0]
    from .mir_protocol import struct_fields, _confirm_keys
    lens = {}
    it_models, what_of, coll = iter_models(ctx, lens, consistent=True)
    pk = {}

    def pk_term(col):
        if col not in pk:
            pk[col] = ctx.fresh_bool("is_primary_key").term
        return pk[col]

    def m_has(ex, callee, args, pc, events):
        b = ctx.fresh_bool("has_column")
        return [(pc, events + [("has", what_of(ex, args[1]), b.term)], BoolV(b.term))]

    def m_get_column(ex, callee, args, pc, events):
        return [(pc, events, EnumV(variant=1, fields=[OpaqueV("column(%s)" % what_of(ex, args[1]))]))]

    def m_valid(ex, callee, args, pc, events):
        b = ctx.fresh_bool("is_valid_value")
        return [(pc, events + [("valid", what_of(ex, args[0]), what_of(ex, args[1]), b.term)], BoolV(b.term))]

    def m_is_pk(ex, callee, args, pc, events):
        return [(pc, events, BoolV(pk_term(what_of(ex, args[0]))))]

    def m_unwrap(ex, callee, args, pc, events):
        o = ex.load(args[0])
        return [(pc, events, o.fields[0] if isinstance(o, EnumV) and o.fields else OpaqueV("unwrapped"))]

    def m_same(ex, callee, args, pc, events):
        return [(pc, events, OpaqueV(what_of(ex, args[0])))]

    def m_index_of(ex, callee, args, pc, events):
        return [(pc, events, EnumV(variant=1, fields=[OpaqueV("index(%s)" % what_of(ex, args[1]))]))]

    def m_event(tag, ret=lambda: TupleV([])):
        return lambda ex, callee, args, pc, events: [(pc, events + [(tag,) + tuple(what_of(ex, a) for a in args)], ret())]

    def m_contains(ex, callee, args, pc, events):
        b = ctx.fresh_bool("key_present")
        return [(pc, events + [("key-check", b.term, what_of(ex, args[1]))], BoolV(b.term))]

    def m_desc(fmt, n):
        return lambda ex, callee, args, pc, events: [(pc, events, OpaqueV(fmt % tuple(what_of(ex, a) for a in args[:n])))]

    def m_sort(ex, callee, args, pc, events):
        # sort_by_cached_key(rows, closure): the key function is run once on an arbitrary row to see what it builds its key from
        mm = re.search(r"\{closure@([^}]*)\}", callee)
        keydesc = "?"
        if mm:
            tg = [f for n, fs in mir.fns.items() for f in fs if f.args and ("{closure@%s}" % mm.group(1)) in f.args[0][1]]
            if len(tg) == 1:
                saved = copy.deepcopy(ex.heap)
                outs_ = ex.run(tg[0], [RefV(ex.load(args[1])), RefV(OpaqueV("sorted-row"))], pc, [], 5)
                ex.heap = saved
                rets = [o for o in outs_ if o.kind == "return"]
                if rets:
                    keydesc = getattr(rets[0].value, "what", repr(rets[0].value))
        return [(pc, events + [("sort", what_of(ex, args[0]), keydesc)], TupleV([]))]

    def m_any(ex, callee, args, pc, events):
        mm = re.search(r"any::<\{closure@([^}]*)\}>", callee)
        if not mm:
            # not a closure this encoding can run: the verdict is an arbitrary boolean, unrelated to is_primary_key
            return [(pc, events + [("any-opaque", callee[-60:])], BoolV(ctx.fresh_bool("any_opaque").term))]
        span = mm.group(1)
        tg = [f for n, fs in mir.fns.items() for f in fs if f.args and ("{closure@%s}" % span) in f.args[0][1]]
        if len(tg) != 1:
            raise EncodingError("closure %s not found in the MIR dump" % span)
        desc = what_of(ex, args[0])
        mi = re.match(r"^it#(\d+)\|(.*)$", desc)
        if not mi:
            raise EncodingError("any over %r" % desc)
        under = mi.group(2)
        envv = ex.load(args[1])
        res = []
        known = ex.heap.setdefault("$lens", {})
        ns = [known[under]] if under in known else [0, 1, 2]
        for n in ns:
            # any() over the first n elements, evaluated without short-circuit (the closure is pure)
            states = [(pc, events, [], copy.deepcopy(ex.heap))]
            for k in range(n):
                nxt = []
                for (cpc, cev, terms, hp) in states:
                    ex.heap = copy.deepcopy(hp)
                    for o in ex.run(tg[0], [RefV(envv), RefV(OpaqueV("%s[%d]" % (under, k)))], cpc, cev + [("elem", "%s[%d]" % (under, k))], 5):
                        if o.kind != "return":
                            raise EncodingError("any-closure does not return: %s" % o.kind)
                        v = o.value
                        nxt.append((o.pc, o.events, terms + [v.term if isinstance(v, BoolV) else "false"], o.heap))
                states = nxt
            for (cpc, cev, terms, hp) in states:
                hp = copy.deepcopy(hp)
                hp.setdefault("$lens", {})[under] = n
                t = "false" if not terms else ("(or %s)" % " ".join(terms) if len(terms) > 1 else terms[0])
                res.append((cpc, cev + [("any", under, n)], BoolV(t), hp))
        return res

    models = [
        (r"Table::has_column$", m_has), (r"Table::get_column$", m_get_column), (r"Column::is_valid_value$", m_valid),
        (r"Column::is_primary_key$", m_is_pk), (r"Option::<.*>::unwrap$", m_unwrap),
        (r"String::as_str$|<String as Deref>::deref$", m_same), (r"Table::index_for_column_name$", m_index_of),
        (r"as Iterator>::any::<", m_any),
        (r"ValueRef::remove$", m_event("mutate")), (r"ValueRef::create$", m_event("mutate", lambda: OpaqueV("new-ref"))),
        (r"HashSet::<Vec<Value>>::contains::<", m_contains), (r"HashSet::<Vec<Value>>::insert$", m_event("key-insert", lambda: BoolV("true", True))),
        (r"BTreeMap::<Vec<Value>, .*>::contains_key::<", m_contains), (r"BTreeMap::<Vec<Value>, .*>::insert$", m_event("key-insert", lambda: EnumV(variant=0, fields=[]))),
        (r"sort(_unstable)?(_by)?(_cached)?(_key)?::<", m_sort),
        (r"Table::primary_key_indices$", lambda ex, callee, args, pc, events: [(pc, events, OpaqueV("pki(%s)" % coll(what_of(ex, args[0]))))]),
        (r"as Iterator>::map::<", m_desc("map(%s)", 1)), (r"as Iterator>::collect::<Vec<Value>>$", m_desc("vec(%s)", 1)),
        (r"Value::to_bool$", lambda ex, callee, args, pc, events: [(pc, events, BoolV(ctx.fresh_bool("matches").term))]),
    ] + it_models

    def stop_at(f, bb, term):
        if "::create_stream::<" in term and f is fn:
            return "write"
        return None

    ex = M.Exec(mir, ctx, models=models, stop_at=stop_at, havoc_unknown=True, max_paths=400000)
    ex.max_revisit = deeper(3)
    ex.no_inline = [r"Table::(stream_name|name|columns|long_string_refs|read_rows)$", r"Expr::(eval|column_names)$", r"Row::new$",
                    r"ValueRef::to_value$", r"closure"]
    qsrc = open(os.path.join(REPO, "src/internal/query.rs")).read()
    ufields = struct_fields(qsrc, "Update")
    ex.new_obj("update", [OpaqueV("update." + f) for f in ufields])
    outs = ex.run(fn, [M.ObjV("update"), OpaqueV("comp"), OpaqueV("pool"), OpaqueV("tables")])
    gv = Group("update_cells_valid", ["query::Update::exec (loops unrolled)", "column::Column::is_valid_value (uninterpreted)"], confirm=_confirm_keys,
               note="on every path of Update::exec that modifies a cell or rewrites the table, every assignment (column name, value) of the statement "
                    "(<= 2) was checked beforehand: the table has the column, and Column::is_valid_value(that column, that value) holds")
    gk = Group("update_keys", ["query::Update::exec (loops unrolled)", "column::Column::is_primary_key (uninterpreted)"], confirm=_confirm_keys,
               note="on every path of Update::exec that modifies a cell and reaches the final write while one of the assigned columns is a primary-key "
                    "column: before the first cell is modified every row's resulting key went through a key-set membership test whose 'already "
                    "present' outcome does not reach the write, and after the last modification the rows were re-sorted")
    nwrite = nmut = 0
    for k, o in enumerate(outs):
        evs = o.events
        first_mut = next((n for n, e in enumerate(evs) if e[0] == "mutate"), None)
        wrote = (o.kind == "stopped" and o.msg == "write")
        if first_mut is None and not wrote:
            continue
        cut = first_mut if first_mut is not None else len(evs)
        before = evs[:cut]
        # ---- cells valid
        assigns = sorted(set(e[1] for e in evs if e[0] == "elem" and re.fullmatch(r"update\.updates\[\d+\]", e[1])))
        for a in assigns:
            hs = [h for h in before if h[0] == "has" and h[1].startswith(a + ".")]
            vs = [v for v in before if v[0] == "valid" and v[2].startswith(a + ".") and v[1] == "column(%s.0)" % a]
            if not hs or not vs:
                gv.queries.append(Query("unchecked_%d_%d" % (k, len(gv.queries)), o.pc, "unsat",
                                        note="assignment %s is applied (or the table rewritten) without the column lookup / is_valid_value check of exactly that column and value beforehand" % a))
            for h in hs:
                gv.queries.append(Query("has_%d_%d" % (k, len(gv.queries)), o.pc + [s_not(h[2])], "unsat", note="an assignment to a column the table lacks reaches the modification phase"))
            for v in vs:
                gv.queries.append(Query("valid_%d_%d" % (k, len(gv.queries)), o.pc + [s_not(v[3])], "unsat", note="a value that is not valid for its column reaches the modification phase"))
        if wrote:
            nwrite += 1
            if len(gv.witness) < 30:
                gv.witness.append(Query("wv_%d" % k, o.pc, "sat"))
        # ---- keys
        if not (wrote and first_mut is not None):
            continue
        nmut += 1
        P = [pk_term("column(%s.0)" % a) for a in assigns]
        some_pk = P[0] if len(P) == 1 else "(or %s)" % " ".join(P)
        checks = [e for e in before if e[0] == "key-check"]
        # the row collection: parent of the cells that are modified
        rcs = set(mm.group(1) for e in evs if e[0] == "mutate" for mm in [re.match(r"^(.*?)\[\d+\]\[\?.*\]$", e[1])] if mm)
        if len(rcs) != 1:
            raise EncodingError("update keys: cannot identify the row collection from the modified cells: %r / %r" % (sorted(rcs)[:3], [e for e in evs if e[0] == "mutate"][:2]))
        rc = rcs.pop()
        nrows = len(set(e[1] for e in evs if e[0] == "elem" and re.fullmatch(re.escape(rc) + r"\[\d+\]", e[1])))
        if len(checks) < nrows:
            gk.queries.append(Query("nogate_%d" % k, o.pc + [some_pk], "unsat",
                                    note="cells of a primary-key column are rewritten although not every row's (%d rows) resulting key was tested for collisions first (%d tests)" % (nrows, len(checks))))
        for c in checks:
            gk.queries.append(Query("collide_%d_%d" % (k, len(gk.queries)), o.pc + [c[1]], "unsat", note="a key collision found by the membership test still reaches the table rewrite"))
            if not re.match(r"^vec\(map\(it#\d+\|(slice:)*pki\(", c[2]):
                gk.queries.append(Query("keyshape_%d_%d" % (k, len(gk.queries)), o.pc + [some_pk], "unsat",
                                        note="the key tested for collisions is not built by mapping over Table::primary_key_indices() (it is %s)" % c[2][:100]))
        for e in evs[last_mut_guard(evs):]:
            if e[0] == "sort" and not re.match(r"^vec\(map\(it#\d+\|(slice:)*pki\(", e[2]):
                gk.queries.append(Query("sortshape_%d_%d" % (k, len(gk.queries)), o.pc + [some_pk], "unsat",
                                        note="the rows are re-sorted by a key that is not built by mapping over Table::primary_key_indices() (it is %s)" % e[2][:100]))
        last_mut = max(n for n, e in enumerate(evs) if e[0] == "mutate")
        if not any(e[0] == "sort" for e in evs[last_mut:]):
            gk.queries.append(Query("nosort_%d" % k, o.pc + [some_pk], "unsat", note="cells of a primary-key column are rewritten and the rows are written back without being re-sorted by key"))
        if len(gk.witness) < 30:
            gk.witness.append(Query("wk_%d" % k, o.pc + [some_pk], "sat"))
    gv.queries.append(Query("paths", ["false"], "unsat", note="%d paths reach the final write" % nwrite))
    gk.queries.append(Query("paths", ["false"], "unsat", note="%d paths modify cells and reach the final write" % nmut))
    if nwrite < 4 or nmut < 2:
        raise EncodingError("update group: %d paths reach the write, %d of them modify cells" % (nwrite, nmut))
    return [gv, gk]


def c05_insert_group(mir, ctx):
    """Insert::exec after its validation phase (Column::is_valid_value is taken as true here: the
    validation gate is C07's law), loops unrolled (<= 2 existing rows, <= 2 new rows), lengths
    consistent along a path; the key map / key set operations, ValueRef::create and the final write
    are events."""
    cands = [f for n, fs in mir.fns.items() for f in fs if n.endswith("::exec") and f.args and re.search(r"\bInsert\b", f.args[0][1])]
    if len(cands) != 1:
        raise EncodingError("Insert::exec not found uniquely in the MIR dump (%d)" % len(cands))
    fn = cands[0]
    from .mir_protocol import struct_fields, _confirm_keys
    lens = {}
    it_models, what_of, coll = iter_models(ctx, lens, consistent=True)
    cur = {"row": None}

    def m_check(tag):
        def f(ex, callee, args, pc, events):
            b = ctx.fresh_bool("key_present")
            return [(pc, events + [(tag, coll(what_of(ex, args[0])), b.term)], BoolV(b.term))]
        return f

    def m_ev(tag, ret):
        return lambda ex, callee, args, pc, events: [(pc, events + [(tag,) + tuple(coll(what_of(ex, a)) for a in args)], ret())]

    def m_desc(fmt, n):
        return lambda ex, callee, args, pc, events: [(pc, events, OpaqueV(fmt % tuple(coll(what_of(ex, a)) for a in args[:n])))]

    models = [
        (r"BTreeMap::<String, Rc<Table>>::get::<", lambda ex, callee, args, pc, events: [(pc, events, EnumV(variant=1, fields=[OpaqueV("rc-table")]))]),
        (r"Column::is_valid_value$", lambda ex, callee, args, pc, events: [(pc, events, BoolV("true", True))]),
        (r"BTreeMap::<Vec<Value>, Vec<ValueRef>>::contains_key::<", m_check("map-check")),
        (r"HashSet::<Vec<Value>>::contains::<", m_check("set-check")),
        (r"HashSet::<Vec<Value>>::insert$", m_ev("set-insert", lambda: BoolV("true", True))),
        (r"BTreeMap::<Vec<Value>, Vec<ValueRef>>::insert$", m_ev("map-insert", lambda: EnumV(variant=0, fields=[]))),
        (r"BTreeMap::<Vec<Value>, Vec<ValueRef>>::into_values$", m_desc("into_values(%s)", 1)),
        (r"as Iterator>::collect::<Vec<Vec<ValueRef>>>$", m_desc("vec(%s)", 1)),
        (r"ValueRef::create$", m_ev("mutate", lambda: OpaqueV("new-ref"))),
        (r"Table::write_rows::<", m_ev("write", lambda: EnumV(variant=0, fields=[TupleV([])]))),
    ] + it_models
    ex = M.Exec(mir, ctx, models=models, havoc_unknown=True, max_paths=400000)
    ex.max_revisit = deeper(3)
    ex.no_inline = [r"Table::(stream_name|name|columns|long_string_refs|read_rows|primary_key_indices|write_rows)", r"ValueRef::to_value$", r"closure"]
    qsrc = open(os.path.join(REPO, "src/internal/query.rs")).read()
    ifields = struct_fields(qsrc, "Insert")
    ex.new_obj("insert", [OpaqueV("insert." + f) for f in ifields])
    outs = ex.run(fn, [M.ObjV("insert"), OpaqueV("comp"), OpaqueV("pool"), OpaqueV("tables")])
    g = Group("insert_keys", ["query::Insert::exec (loops unrolled; validation taken as passed)"], confirm=_confirm_keys,
              note="on every path of Insert::exec that takes a reference for a new cell or writes the table: before that, for every row of the "
                   "batch (<= 2) a membership test of its key in the key-ordered map of existing rows AND one in the set of keys of the batch "
                   "were made, whose 'present' outcomes do not get that far; every batch row is then inserted into that map, and what is "
                   "written is exactly the map's values in key order (BTreeMap::into_values), nothing re-ordered afterwards")
    nwrite = 0
    new_rows = "insert.new_rows"
    for k, o in enumerate(outs):
        evs = o.events
        batch = sorted(set(e[1] for e in evs if e[0] == "elem" and re.fullmatch(re.escape(new_rows) + r"\[\d+\]", e[1])))
        # the modification phase starts where the first batch row is interned: ValueRef::create runs inside the
        # closure of the `map` right before that row's insertion into the map (the closure itself is not walked)
        cur_row, first_mut, ins_rows = None, None, []
        for n, e in enumerate(evs):
            if e[0] == "elem" and not re.search(r"\]\[|\]\.", e[1]):
                cur_row = e[1] if e[1] in batch else None
            elif e[0] == "map-insert" and cur_row is not None:
                ins_rows.append(cur_row)
                if first_mut is None:
                    first_mut = n
            elif e[0] in ("mutate", "write") and first_mut is None:
                first_mut = n
        if first_mut is None:
            continue
        wrote = any(e[0] == "write" for e in evs)
        before = evs[:first_mut]
        # attribute each membership test to the batch row being visited when it was made
        per = {r: {"map-check": [], "set-check": []} for r in batch}
        cur_row = None
        for e in before:
            if e[0] == "elem" and not re.search(r"\]\[|\]\.", e[1]):
                cur_row = e[1] if e[1] in per else None
            elif e[0] in ("map-check", "set-check") and cur_row is not None:
                per[cur_row][e[0]].append(e)
        for r in batch:
            for kind, what in (("map-check", "against the existing rows"), ("set-check", "against the other rows of the batch")):
                if not per[r][kind]:
                    g.queries.append(Query("untested_%d_%d" % (k, len(g.queries)), o.pc, "unsat",
                                           note="a batch row's key is never tested %s before the table is modified" % what))
                for c in per[r][kind]:
                    g.queries.append(Query("present_%d_%d" % (k, len(g.queries)), o.pc + [c[2]], "unsat",
                                           note="a batch row whose key is already present (%s) still gets its cells interned / the table written" % what))
        if wrote:
            nwrite += 1
            maps = set(e[1] for e in evs if e[0] == "map-insert")
            w = [e for e in evs if e[0] == "write"][-1]
            if sorted(set(ins_rows)) != batch:
                g.queries.append(Query("notinserted_%d" % k, o.pc, "unsat", note="%d batch rows but only %d insertions into the key-ordered map before the write" % (len(batch), len(ins_rows))))
            if len(maps) > 1 or not any(a == "vec(into_values(%s))" % m for m in (maps or {"?"}) for a in w[1:]) and (maps or batch):
                if maps:
                    g.queries.append(Query("notmap_%d" % k, o.pc, "unsat", note="the rows written are not the values of the key-ordered map in key order: write%r" % (w[1:],)))
            touched = [e for e in evs if e[0] == "call" and any("into_values(" in str(a) for a in e[2:])]
            if touched:
                g.queries.append(Query("reordered_%d" % k, o.pc, "unsat", note="the map's values are handed to %s before being written (order no longer the map's)" % touched[0][1][-60:]))
            if len(g.witness) < 30 and batch:
                g.witness.append(Query("w_%d" % k, o.pc, "sat"))
    g.queries.append(Query("paths", ["false"], "unsat", note="%d paths reach the final write" % nwrite))
    if nwrite < 4:
        raise EncodingError("insert keys: only %d paths reach the final write" % nwrite)
    return [g]


# --------------------------------------------------------------------------
# C13: structure of the expression constructors (what is folded, what is kept)
# --------------------------------------------------------------------------

def _c13_confirm(model, native):
    out = native("native::c13::replay_constructors", {})
    if not out.get("_ran"):
        return None, "native replay did not run"
    if out.get("_panicked"):
        return True, "native constructor replay panicked: %s" % out.get("_panic_msg")
    return (out.get("differs") == 1), (out.get("witness") or "all %s literal/column constructions evaluate alike natively" % out.get("checked"))


def c13_constructor_group(mir, ctx):
    """Expr::unop, Expr::binop, Expr::and, Expr::or on every combination of argument node kinds
    (Literal, Column, UnOp, BinOp, And, Or), the nodes' contents opaque: the result is the literal
    op.eval(values) exactly when every operand of unop/binop is a literal, and otherwise the node
    UnOp/BinOp/And/Or holding the operator and the UNCHANGED operand trees in order.  Together with
    the single-node evaluation laws decided by the Kani harnesses this gives, by induction on the
    tree (on paper), that a constructed expression evaluates like the documented operators applied
    bottom-up at any depth."""
    src = open(os.path.join(REPO, "src/internal/expr.rs")).read()
    av = enum_variants(src, "Ast")
    for need in ("Literal", "UnOp", "BinOp", "And", "Or"):
        if need not in av:
            raise EncodingError("Ast has no variant %s" % need)

    def node(tag, v):
        return EnumV(variant=av.index(v), fields=[OpaqueV("%s.%d" % (tag, i)) for i in range(3)])

    def vname(e):
        return av[e.variant] if isinstance(e.variant, int) and 0 <= e.variant < len(av) else str(e.variant)

    def same_node(x, tag, v):
        x = x.target if isinstance(x, RefV) else x
        return isinstance(x, EnumV) and vname(x) == v and [getattr(f, "what", None) for f in x.fields[:3]] == ["%s.%d" % (tag, i) for i in range(3)]

    def unbox(x):
        return x.fields[0] if isinstance(x, TupleV) and len(x.fields) == 1 else x

    def m_eval(tag):
        return lambda ex, callee, args, pc, events: [(pc, events, OpaqueV("%s(%s)" % (tag, ",".join(getattr(ex.load(a), "what", repr(ex.load(a))) for a in args))))]

    models = [(r"^UnOp::eval$", m_eval("UnOp::eval")), (r"^BinOp::eval$", m_eval("BinOp::eval")),
              (r"Box::<Ast>::new$", lambda ex, callee, args, pc, events: [(pc, events, TupleV([ex.load(args[0])]))])]
    g = Group("constructor_structure", ["expr::Expr::unop", "expr::Expr::binop", "expr::Expr::and", "expr::Expr::or"], confirm=_c13_confirm,
              note="for every combination of operand node kinds: unop/binop fold to Literal(op.eval(..)) exactly when all operands are literals; "
                   "otherwise the result is the UnOp/BinOp node with the same operator and the unchanged operand trees in order; and/or always "
                   "build the And/Or node over the unchanged operands (no folding, so the right operand stays unevaluated until the left is known)")

    def find1(name):
        c = [f for n, fs in mir.fns.items() for f in fs if re.search(r"expr::<impl at [^>]*>::%s$" % name, n) and f.ret and f.ret.strip() == "Expr"]
        if len(c) != 1:
            raise EncodingError("Expr::%s not found uniquely (%d)" % (name, len(c)))
        return c[0]

    def ast_of(o):
        v = o.value
        if isinstance(v, EnumV) and v.variant == "Expr" and v.fields:
            return v.fields[0]
        raise EncodingError("constructor does not return an Expr struct: %r" % (v,))

    def verdict(name, ok, why, pc):
        g.queries.append(Query("%s_%d" % (name, len(g.queries)), ["false"] if ok else list(pc), "unsat", note=why))

    def runs(f, args, what):
        ex = M.Exec(mir, ctx, models=models, havoc_unknown=True)
        ex.no_inline = [r"^Value::", r"^UnOp::", r"^BinOp::", r"^Row::", r"^Table::"]   # node contents are opaque: whatever inspects them is an arbitrary result
        outs = ex.run(f, args)
        rets = [o for o in outs if o.kind == "return"]
        for o in outs:
            if o.kind == "panic":
                verdict("panic", False, "%s can panic: %s" % (what, o.msg), o.pc)
        if not rets:
            raise EncodingError("%s: no returning path" % what)
        return rets

    f_un, f_bin, f_and, f_or = find1("unop"), find1("binop"), find1("and"), find1("or")
    for va in av:
        for o in runs(f_un, [OpaqueV("op"), node("a", va)], "Expr::unop(%s)" % va):
            r = ast_of(o)
            if va == "Literal":
                ok = isinstance(r, EnumV) and vname(r) == "Literal" and getattr(r.fields[0], "what", "") in ("UnOp::eval(op,a.0)",)
                verdict("unop_literal", ok, "a unary operator applied to a literal must fold to Literal(op.eval(value)); got %r" % (r,), o.pc)
            else:
                ok = isinstance(r, EnumV) and vname(r) == "UnOp" and getattr(r.fields[0], "what", "") == "op" and same_node(unbox(r.fields[1]), "a", va)
                verdict("unop_%s" % va, ok, "a unary operator applied to a %s node must build UnOp(op, that node unchanged); got %r" % (va, r), o.pc)
        for vb in av:
            for o in runs(f_bin, [OpaqueV("op"), node("a", va), node("b", vb)], "Expr::binop(%s,%s)" % (va, vb)):
                r = ast_of(o)
                if va == "Literal" and vb == "Literal":
                    ok = isinstance(r, EnumV) and vname(r) == "Literal" and getattr(r.fields[0], "what", "") == "BinOp::eval(op,a.0,b.0)"
                    verdict("binop_literals", ok, "a binary operator applied to two literals must fold to Literal(op.eval(v1, v2)); got %r" % (r,), o.pc)
                else:
                    ok = (isinstance(r, EnumV) and vname(r) == "BinOp" and getattr(r.fields[0], "what", "") == "op"
                          and same_node(unbox(r.fields[1]), "a", va) and same_node(unbox(r.fields[2]), "b", vb))
                    verdict("binop_%s_%s" % (va, vb), ok, "a binary operator applied to (%s, %s) must build BinOp(op, left unchanged, right unchanged); got %r" % (va, vb, r), o.pc)
            for fn_, nm in ((f_and, "And"), (f_or, "Or")):
                for o in runs(fn_, [EnumV(variant="Expr", fields=[node("a", va)]), EnumV(variant="Expr", fields=[node("b", vb)])], "Expr::%s(%s,%s)" % (nm.lower(), va, vb)):
                    r = ast_of(o)
                    ok = isinstance(r, EnumV) and vname(r) == nm and same_node(unbox(r.fields[0]), "a", va) and same_node(unbox(r.fields[1]), "b", vb)
                    verdict("%s_%s_%s" % (nm.lower(), va, vb), ok, "%s applied to (%s, %s) must build the %s node over the unchanged operands; got %r" % (nm.upper(), va, vb, nm, r), o.pc)
    g.witness.append(Query("w", [], "sat"))
    return [g]


# --------------------------------------------------------------------------
# C03: per-row kernels of delete / select / update, frame condition, Rows iterator
# --------------------------------------------------------------------------

def _row_desc_models(ctx, what_of, coll):
    """descriptors that keep the identity of the row a condition is evaluated on:
    row(vec(map(it#k|<row>)))"""
    def m_desc(fmt, n):
        return lambda ex, callee, args, pc, events: [(pc, events, OpaqueV(fmt % tuple(what_of(ex, a) for a in args[:n])))]

    def m_row(ex, callee, args, pc, events):
        return [(pc, events, OpaqueV("row(%s)" % what_of(ex, args[1])))]

    def m_eval(ex, callee, args, pc, events):
        return [(pc, events + [("eval", what_of(ex, args[0]), what_of(ex, args[1]))], OpaqueV("value-of(%s)" % what_of(ex, args[1])))]

    def m_to_bool(ex, callee, args, pc, events):
        b = ctx.fresh_bool("condition_true")
        return [(pc, events + [("cond", b.term, what_of(ex, args[0]))], BoolV(b.term))]

    return [(r"as Iterator>::map::<", m_desc("map(%s)", 1)), (r"as Iterator>::collect::<Vec<Value>>$", m_desc("vec(%s)", 1)),
            (r"Row::new$", m_row), (r"Expr::eval$", m_eval), (r"Value::to_bool$", m_to_bool)]


def c03_retain_kernels_group(mir, ctx):
    """The `retain` predicates of Delete::exec and Select::exec, one row per call."""
    from .mir_protocol import _confirm_relational
    g = Group("filter_kernels", ["query::Delete::exec::{closure} (retain predicate)", "query::Select::exec::{closure} (retain predicate)"],
              confirm=_confirm_relational,
              note="per row: DELETE keeps the row exactly when a condition is present and evaluates to false on THAT row (no condition: every "
                   "row goes); SELECT keeps the row exactly when its condition evaluates to true on THAT row")
    clos = [f for n, fs in mir.fns.items() for f in fs if re.search(r"::exec::\{closure#\d+\}$", n) and len(f.args) == 2
            and "Vec<ValueRef>" in f.args[1][1] and (f.ret or "").strip() == "bool"]
    dele = [f for f in clos if "ValueRef::remove" in f.text]
    sele = [f for f in clos if "ValueRef::remove" not in f.text and "Expr::eval" in f.text]
    if len(dele) != 1 or len(sele) != 1:
        raise EncodingError("retain closures not found uniquely (delete %d, select %d)" % (len(dele), len(sele)))
    for which, fn in (("delete", dele[0]), ("select", sele[0])):
        lens = {}
        it_models, what_of, coll = iter_models(ctx, lens)
        models = [(r"ValueRef::remove$", lambda ex, callee, args, pc, events: [(pc, events, TupleV([]))])] + _row_desc_models(ctx, what_of, coll) + it_models
        ex = M.Exec(mir, ctx, models=models, havoc_unknown=True)
        ex.max_revisit = 3
        ex.no_inline = [r"ValueRef::to_value$", r"closure", r"Table::"]
        outs = ex.run(fn, [RefV(OpaqueV("closure-env")), RefV(OpaqueV("the-row"))])
        n = 0
        for k, o in enumerate(outs):
            if o.kind == "panic":
                g.queries.append(Query("%s_panic_%d" % (which, k), o.pc, "unsat", note="the %s predicate can panic: %s" % (which, o.msg)))
                continue
            if o.kind != "return":
                continue
            n += 1
            kept = o.value
            if not isinstance(kept, BoolV):
                raise EncodingError("the %s retain predicate returns %r" % (which, kept))
            conds = [e for e in o.events if e[0] == "cond"]
            evals = [e for e in o.events if e[0] == "eval"]
            if conds:
                c = conds[-1]
                if not evals or "|the-row" not in evals[-1][2] or evals[-1][2] not in c[2]:
                    g.queries.append(Query("%s_other_row_%d" % (which, k), o.pc, "unsat", note="%s: the condition is not evaluated on the row being decided: eval%r cond%r" % (which, evals[-1:] , c)))
                want_keep = s_not(c[1]) if which == "delete" else c[1]
                g.queries.append(Query("%s_keep_iff_%d" % (which, k), o.pc + ["(not (= %s %s))" % (kept.term, want_keep)], "unsat",
                                       note="%s: the row is kept although it should go, or goes although it should be kept (condition verdict vs. predicate result)" % which))
            else:
                if which == "delete":
                    g.queries.append(Query("delete_all_%d" % k, o.pc + [kept.term], "unsat", note="DELETE without a condition keeps a row"))
                else:
                    g.queries.append(Query("select_noeval_%d" % k, o.pc, "unsat", note="the SELECT filter decides a row without evaluating the condition"))
            g.witness.append(Query("w_%s_%d" % (which, k), o.pc, "sat"))
        if n < 1:
            raise EncodingError("%s retain predicate: no returning path" % which)
    return [g]


def c03_update_kernel_group(mir, ctx):
    """Update::exec, loops unrolled (<= 2 assignments, <= 2 rows), lengths consistent: which cells
    of which rows are rewritten, and to what."""
    cands = [f for n, fs in mir.fns.items() for f in fs if n.endswith("::exec") and f.args and re.search(r"\bUpdate\b", f.args[0][1])]
    if len(cands) != 1:
        raise EncodingError("Update::exec not found uniquely in the MIR dump (%d)" % len(cands))
    fn = cands[0]
    from .mir_protocol import struct_fields, _confirm_relational
    lens = {}
    it_models, what_of, coll = iter_models(ctx, lens, consistent=True)

    def m_same(ex, callee, args, pc, events):
        return [(pc, events, OpaqueV(what_of(ex, args[0])))]

    def m_ev(tag, ret):
        return lambda ex, callee, args, pc, events: [(pc, events + [(tag,) + tuple(what_of(ex, a) for a in args)], ret())]

    models = [
        (r"Table::has_column$", lambda ex, callee, args, pc, events: [(pc, events, BoolV("true", True))]),
        (r"Table::get_column$", lambda ex, callee, args, pc, events: [(pc, events, EnumV(variant=1, fields=[OpaqueV("column(%s)" % what_of(ex, args[1]))]))]),
        (r"Column::is_valid_value$", lambda ex, callee, args, pc, events: [(pc, events, BoolV("true", True))]),
        (r"Column::is_primary_key$", lambda ex, callee, args, pc, events: [(pc, events, BoolV("false", False))]),
        (r"as Iterator>::any::<", lambda ex, callee, args, pc, events: [(pc, events, BoolV("false", False))]),
        (r"Option::<.*>::unwrap$", lambda ex, callee, args, pc, events: [(pc, events, (lambda o: o.fields[0] if isinstance(o, EnumV) and o.fields else OpaqueV("unwrapped"))(ex.load(args[0])))]),
        (r"String::as_str$|<String as Deref>::deref$|<Value as Clone>::clone$", m_same),
        (r"Table::index_for_column_name$", lambda ex, callee, args, pc, events: [(pc, events, EnumV(variant=1, fields=[OpaqueV("index(%s)" % what_of(ex, args[1]))]))]),
        (r"ValueRef::remove$", m_ev("remove", lambda: TupleV([]))), (r"ValueRef::create$", m_ev("create", lambda: OpaqueV("new-ref"))),
    ] + _row_desc_models(ctx, what_of, coll) + it_models

    def stop_at(f, bb, term):
        if "::create_stream::<" in term and f is fn:
            return "write"
        return None

    ex = M.Exec(mir, ctx, models=models, stop_at=stop_at, havoc_unknown=True, max_paths=400000)
    ex.max_revisit = deeper(3)
    ex.no_inline = [r"Table::(stream_name|name|columns|long_string_refs|read_rows|primary_key_indices)$", r"Expr::column_names$", r"ValueRef::to_value$", r"closure"]
    qsrc = open(os.path.join(REPO, "src/internal/query.rs")).read()
    ex.new_obj("update", [OpaqueV("update." + f) for f in struct_fields(qsrc, "Update")])
    outs = ex.run(fn, [M.ObjV("update"), OpaqueV("comp"), OpaqueV("pool"), OpaqueV("tables")])
    g = Group("update_kernel", ["query::Update::exec (loops unrolled; the key-update branch is C05's subject and is switched off here)"], confirm=_confirm_relational,
              note="on every path that reaches the final write: a row's cells are rewritten exactly when the statement has no condition or its "
                   "condition evaluates to true on THAT row; in such a row exactly the cells index(name_j) of the assignments j (<= 2) are "
                   "rewritten, each to ValueRef::create(value_j); rows that do not match and all other cells are untouched")
    nw = 0
    for k, o in enumerate(outs):
        if not (o.kind == "stopped" and o.msg == "write"):
            continue
        nw += 1
        evs = o.events
        assigns = sorted(set(e[1] for e in evs if e[0] == "elem" and re.fullmatch(r"update\.updates\[\d+\]", e[1])))
        cells = [e for e in evs if e[0] in ("remove", "create")]
        rc = set(mm.group(1) for e in evs if e[0] == "remove" for mm in [re.match(r"^(.*?)\[\d+\]\[\?.*\]$", e[1])] if mm)
        rowelems = [e[1] for e in evs if e[0] == "elem"]
        # row collection: from the modified cells, else from the rows a condition was evaluated on
        if not rc:
            rc = set(mm.group(1) for e in evs if e[0] == "eval" for mm in [re.search(r"\|(.*)\[\d+\]\)+$", e[2])] if mm)
        if len(rc) > 1:
            raise EncodingError("update kernel: more than one row collection: %r" % sorted(rc))
        if not rc:
            continue
        rcn = rc.pop()
        rows = sorted(set(x for x in rowelems if re.fullmatch(re.escape(rcn) + r"\[\d+\]", x)))
        conds = {}
        for n, e in enumerate(evs):
            if e[0] == "cond":
                mm = re.search(r"\|(%s\[\d+\])\)+$" % re.escape(rcn), e[2])
                if mm:
                    conds.setdefault(mm.group(1), e[1])
        for r in rows:
            removed = [e[1] for e in evs if e[0] == "remove" and e[1].startswith(r + "[")]
            created = [e[1] for e in evs if e[0] == "create"]
            want_cells = ["%s[?Opaque(index(%s.0))]" % (r, a) for a in assigns]
            touched = bool(removed)
            if touched and removed != want_cells:
                g.queries.append(Query("cells_%d_%d" % (k, len(g.queries)), o.pc, "unsat", note="row %s: cells rewritten %r, assignments name %r" % (r[-12:], removed, want_cells)))
            if not assigns:
                continue        # a statement without assignments rewrites nothing
            if r in conds:
                # rewritten <=> condition true
                g.queries.append(Query("match_%d_%d" % (k, len(g.queries)), o.pc + [conds[r] if not touched else s_not(conds[r])], "unsat",
                                       note="a row is %s although the condition evaluates to %s on it" % ("rewritten" if touched else "left alone", "false" if touched else "true")))
            elif not touched and assigns:
                # no condition evaluated for this row: it must have been rewritten (statement without WHERE)
                g.queries.append(Query("uncond_%d_%d" % (k, len(g.queries)), o.pc, "unsat", note="a row is left alone although no condition was evaluated on it"))
        # every create takes the assignment's value, in order, once per rewritten cell
        creates = [e[1] for e in evs if e[0] == "create"]
        removes = [e[1] for e in evs if e[0] == "remove"]
        want_vals = []
        for rm in removes:
            mm = re.search(r"index\((update\.updates\[\d+\])\.0\)", rm)
            want_vals.append(mm.group(1) + ".1" if mm else "?")
        if creates != want_vals:
            g.queries.append(Query("values_%d" % k, o.pc, "unsat", note="new cell values %r do not match the assignments' values %r" % (creates, want_vals)))
        if len(g.witness) < 40 and removes:
            g.witness.append(Query("w_%d" % k, o.pc, "sat"))
    g.queries.append(Query("paths", ["false"], "unsat", note="%d paths reach the final write" % nw))
    if nw < 4 or not g.witness:
        raise EncodingError("update kernel: %d paths reach the write, %d with rewritten cells" % (nw, len(g.witness)))
    return [g]


def c03_frame_group(mir, ctx):
    """Insert/Update/Delete::exec and Join::exec(Table): which container calls they can make."""
    from .mir_protocol import struct_fields, _confirm_relational
    qsrc = open(os.path.join(REPO, "src/internal/query.rs")).read()
    jv = enum_variants(qsrc, "Join")
    g = Group("frame", ["query::Insert::exec", "query::Update::exec", "query::Delete::exec", "query::Join::exec (Join::Table)"], confirm=_confirm_relational,
              note="the only container calls an executor makes are exists / open_stream (reads) on, and for the three writers exactly one "
                   "create_stream of, the stream named Table::stream_name() of the table looked up under the statement's table name; a base-table "
                   "select makes no writing call at all; so other tables, streams and the summary are not touched by an executor")
    total = 0
    for tname, rx in (("Insert", r"\bInsert\b"), ("Update", r"\bUpdate\b"), ("Delete", r"\bDelete\b"), ("Join", r"\bJoin\b")):
        cands = [f for n, fs in mir.fns.items() for f in fs if n.endswith("::exec") and f.args and re.search(rx, f.args[0][1])]
        if len(cands) != 1:
            raise EncodingError("%s::exec not found uniquely (%d)" % (tname, len(cands)))
        fn = cands[0]
        lens = {}
        it_models, what_of, coll = iter_models(ctx, lens, consistent=True)
        models = [
            (r"BTreeMap::<String, Rc<Table>>::get::<", lambda ex, callee, args, pc, events: [(pc, events + [("lookup", what_of(ex, args[1]))], EnumV(variant=1, fields=[OpaqueV("rc-table")])),
                                                                                              (pc, events, EnumV(variant=0, fields=[]))]),
            (r"Table::stream_name$", lambda ex, callee, args, pc, events: [(pc, events, OpaqueV("stream_name(%s)" % coll(what_of(ex, args[0]))))]),
            (r"Column::is_valid_value$|Table::has_column$", lambda ex, callee, args, pc, events: [(pc, events, BoolV("true", True))]),
            (r"as Iterator>::any::<", lambda ex, callee, args, pc, events: [(pc, events, BoolV(ctx.fresh_bool("any").term))]),
        ] + it_models
        ex = M.Exec(mir, ctx, models=models, havoc_unknown=True, max_paths=400000)
        ex.max_revisit = 2
        ex.no_inline = [r"Table::", r"Expr::", r"Row::new$", r"ValueRef::", r"Value::", r"closure", r"Select::exec", r"Rows::", r"Column::", r"StringPool::"]
        if tname == "Join":
            arg0 = EnumV(variant=jv.index("Table"), fields=[OpaqueV("join.table_name")])
        else:
            ex.new_obj("stmt", [OpaqueV("stmt." + f) for f in struct_fields(qsrc, tname)])
            arg0 = M.ObjV("stmt")
        outs = ex.run(fn, [arg0, OpaqueV("comp"), OpaqueV("pool"), OpaqueV("tables")])
        for k, o in enumerate(outs):
            if o.kind not in ("return",):
                continue
            total += 1
            calls = [e for e in o.events if e[0] == "call" and re.search(r"CompoundFile(::<.*?>)?::\w+", e[1])]
            looked = [e[1] for e in o.events if e[0] == "lookup"]
            okret = isinstance(o.value, EnumV) and o.value.variant in (0, "Ok")
            ncreate = 0
            for c in calls:
                meth = re.search(r"CompoundFile(?:::<.*?>)?::(\w+)", c[1]).group(1)
                args = " ".join(str(a) for a in c[2:])
                if meth not in ("exists", "open_stream", "create_stream") or (meth == "create_stream" and tname == "Join"):
                    g.queries.append(Query("%s_call_%d_%d" % (tname, k, len(g.queries)), o.pc, "unsat", note="%s::exec calls CompoundFile::%s" % (tname, meth)))
                elif "stream_name(rc-table)" not in args:
                    g.queries.append(Query("%s_name_%d_%d" % (tname, k, len(g.queries)), o.pc, "unsat", note="%s::exec calls CompoundFile::%s on %s, not on the statement's table stream" % (tname, meth, args[:120])))
                if meth == "create_stream":
                    ncreate += 1
            want_field = "join.table_name" if tname == "Join" else "stmt.table_name"
            if calls and not any(want_field in l for l in looked):
                g.queries.append(Query("%s_table_%d" % (tname, k), o.pc, "unsat", note="%s::exec touches the container without looking the table up under the statement's table name (%r)" % (tname, looked)))
            if okret and tname != "Join" and ncreate != 1:
                g.queries.append(Query("%s_writes_%d" % (tname, k), o.pc, "unsat", note="%s::exec returns Ok after %d create_stream calls (exactly one expected)" % (tname, ncreate)))
            if not okret and ncreate and tname != "Join":
                pass    # an error after create_stream (write failure) is the medium's fault, C04 restricts itself to argument errors
            if len(g.witness) < 40 and calls:
                g.witness.append(Query("w_%s_%d" % (tname, k), o.pc, "sat"))
    g.queries.append(Query("paths", ["false"], "unsat", note="%d returning paths examined" % total))
    if total < 8:
        raise EncodingError("frame: only %d returning paths" % total)
    return [g]


def c03_rows_iterator_group(mir, ctx):
    """Rows::next and Rows::size_hint from an arbitrary iterator state with next_row_index <= rows.len()."""
    from .mir_protocol import struct_fields
    tsrc = open(os.path.join(REPO, "src/internal/table.rs")).read()
    rf = struct_fields(tsrc, "Rows")
    for need in ("rows", "next_row_index"):
        if need not in rf:
            raise EncodingError("struct Rows has no field %s" % need)
    f_next = [f for n, fs in mir.fns.items() for f in fs if n.endswith("::next") and f.args and "Rows<" in f.args[0][1] and "Option<Row>" in (f.ret or "").replace("internal::table::", "")]
    f_hint = [f for n, fs in mir.fns.items() for f in fs if n.endswith("::size_hint") and f.args and "Rows<" in f.args[0][1]]
    if len(f_next) != 1 or len(f_hint) != 1:
        raise EncodingError("Rows::next / size_hint not found uniquely (%d, %d)" % (len(f_next), len(f_hint)))
    from .mir_protocol import _confirm_relational
    g = Group("rows_iterator", ["table::<Rows as Iterator>::next", "table::<Rows as Iterator>::size_hint"], confirm=_confirm_relational,
              note="from any state with next_row_index <= rows.len(): size_hint() is exactly (n, Some(n)) with n = rows.len() - next_row_index and does "
                   "not panic; next() yields a row exactly when n > 0, the row is built from rows[next_row_index], and it advances next_row_index by "
                   "one (so the invariant is kept and the reported length, ExactSizeIterator::len() = size_hint().0, is the number of rows still to "
                   "come: by induction it equals the number of rows yielded)")
    lens = {}
    it_models, what_of, coll = iter_models(ctx, lens)
    ln = ctx.fresh_int("rows_len", "usize")

    def m_len(ex, callee, args, pc, events):
        return [(pc, events, ln)]

    def m_index(ex, callee, args, pc, events):
        i = ex.load(args[1])
        return [(pc, events + [("index", getattr(i, "term", repr(i)))], OpaqueV("rows[idx]"))]

    models = [(r"Vec::<Vec<ValueRef>>::len$", m_len), (r"<Vec<Vec<ValueRef>> as Index<usize>>::index$", m_index)] + it_models
    for which, fn in (("next", f_next[0]), ("size_hint", f_hint[0])):
        ex = M.Exec(mir, ctx, models=models, havoc_unknown=True)
        ex.no_inline = [r"ValueRef::", r"Row::new$", r"closure", r"Table::"]
        idx = ctx.fresh_int("next_row_index", "usize")
        inv = "(<= %s %s)" % (idx.term, ln.term)
        ex.new_obj("rows", [idx if f == "next_row_index" else OpaqueV("rows." + f) for f in rf])
        outs = ex.run(fn, [M.ObjV("rows")])
        outs = outs + ex._pending_panics
        ex._pending_panics = []
        nret = 0
        for k, o in enumerate(outs):
            if o.kind == "panic":
                g.queries.append(Query("%s_panic_%d" % (which, k), [inv] + o.pc, "unsat", note="Rows::%s can panic from a state satisfying the invariant: %s" % (which, o.msg)))
                continue
            if o.kind != "return":
                continue
            nret += 1
            if which == "next":
                after = o.heap["rows"][rf.index("next_row_index")]
                v = o.value
                some = isinstance(v, EnumV) and v.variant in (1, "Some")
                if some:
                    g.queries.append(Query("next_some_%d" % k, [inv] + o.pc + ["(not (and (< %s %s) (= %s (+ %s 1))))" % (idx.term, ln.term, after.term, idx.term)], "unsat",
                                           note="next() yields a row although none is left, or does not advance next_row_index by exactly one"))
                    ix = [e for e in o.events if e[0] == "index"]
                    if len(ix) != 1:
                        g.queries.append(Query("next_src_%d" % k, [inv] + o.pc, "unsat", note="next() does not build its row from exactly one element of rows"))
                    else:
                        g.queries.append(Query("next_src_%d" % k, [inv] + o.pc + ["(not (= %s %s))" % (ix[0][1], idx.term)], "unsat", note="next() yields a row other than rows[next_row_index]"))
                else:
                    g.queries.append(Query("next_none_%d" % k, [inv] + o.pc + ["(not (and (>= %s %s) (= %s %s)))" % (idx.term, ln.term, after.term, idx.term)], "unsat",
                                           note="next() returns None although rows are left, or moves next_row_index while doing so"))
            else:
                v = o.value
                try:
                    lo = v.fields[0]
                    hi = v.fields[1]
                    hi_some = isinstance(hi, EnumV) and hi.variant in (1, "Some")
                    hv = hi.fields[0]
                    g.queries.append(Query("hint_%d" % k, [inv] + o.pc + ["(not (and (= %s (- %s %s)) (= %s (- %s %s))))" % (lo.term, ln.term, idx.term, hv.term, ln.term, idx.term)] if hi_some else [inv] + o.pc,
                                           "unsat", note="size_hint() is not exactly (rows.len() - next_row_index, Some(the same))"))
                except Exception:
                    raise EncodingError("size_hint returns %r" % (v,))
            g.witness.append(Query("w_%s_%d" % (which, k), [inv] + o.pc, "sat"))
        if nret < 1:
            raise EncodingError("Rows::%s: no returning path" % which)
    return [g]


def c03_all(mir, ctx):
    # the projection law (requested columns in the requested order) is C12's select_names law, re-used here
    return (c03_retain_kernels_group(mir, ctx) + c03_update_kernel_group(mir, ctx) + c03_frame_group(mir, ctx) + c03_rows_iterator_group(mir, ctx)
            + c12_select_gate_group(mir, ctx))


# --------------------------------------------------------------------------
# C04: create_table -- everything it will insert is checked before the first change
# --------------------------------------------------------------------------

def c04_create_table_group(mir, ctx):
    """create_table_with_name with its loops unrolled (one row per catalog batch, one cell per row visited), Package::insert_rows a fallible event, Column::is_valid_value an uninterpreted predicate."""
    fn = mir.find(r"package::.*::create_table_with_name$")
    from .mir_protocol import _confirm_create
    lens = {}
    it_models, what_of, coll = iter_models(ctx, lens, consistent=True)

    def sval(ex, a):
        v = ex.load(a)
        return v.s if isinstance(v, StrV) else getattr(v, "what", repr(v))

    def m_into(ex, callee, args, pc, events):
        return [(pc, events, OpaqueV("into(%s)" % sval(ex, args[0])))]

    def m_rows(ex, callee, args, pc, events):
        return [(pc, events, OpaqueV("%s;rows=%s" % (what_of(ex, args[0]), coll(what_of(ex, args[1])))))]

    def m_insert(ex, callee, args, pc, events):
        w = what_of(ex, args[1])
        return [(pc, events + [("insert_rows", w, "Ok")], EnumV(variant=0, fields=[TupleV([])])),
                (pc, events + [("insert_rows", w, "Err")], EnumV(variant=1, fields=[OpaqueV("io::Error")]))]

    def m_valid(ex, callee, args, pc, events):
        b = ctx.fresh_bool("is_valid_value")
        return [(pc, events + [("valid", what_of(ex, args[0]), what_of(ex, args[1]), b.term)], BoolV(b.term))]

    def m_get(ex, callee, args, pc, events):
        n = sval(ex, args[1])
        return [(pc, events + [("catalog", n)], EnumV(variant=1, fields=[OpaqueV("catalog(%s)" % n)])), (pc, events + [("catalog-missing", n)], EnumV(variant=0, fields=[]))]

    def m_register(ex, callee, args, pc, events):
        return [(pc, events + [("register",)], EnumV(variant=0, fields=[]))]

    def m_bool(name):
        return lambda ex, callee, args, pc, events: [(pc, events, BoolV(ctx.fresh_bool(name).term))]

    models = [
        (r"Insert::into::<", m_into), (r"Insert::rows$|Insert::row$", m_rows), (r"Package::<F>::insert_rows$", m_insert),
        (r"Table::columns$", lambda ex, callee, args, pc, events: [(pc, events, OpaqueV("slice:columns(%s)" % coll(what_of(ex, args[0]))))]),
        (r"Column::is_valid_value$", m_valid), (r"BTreeMap::<String, Rc<Table>>::get::<", m_get), (r"BTreeMap::<String, Rc<Table>>::insert$", m_register),
        (r"BTreeMap::<String, Rc<Table>>::contains_key::<", m_bool("table_exists")),
        (r"Table::is_valid_name$|Column::is_valid_name$", m_bool("name_ok")),
        (r"HashSet::<&str>::contains::<", m_bool("dup_name")), (r"HashSet::<&str>::insert$", lambda ex, callee, args, pc, events: [(pc, events, BoolV("true", True))]),
        (r"as Iterator>::any::<", m_bool("has_primary_key")),
        (r"<str as PartialEq>::eq$|<&str as PartialEq<&str>>::eq$|<String as PartialEq<str>>::eq$", m_bool("creating_the_catalog_itself")),
    ] + it_models
    ex = M.Exec(mir, ctx, models=models, havoc_unknown=True, max_paths=400000)
    ex.max_revisit = 2
    ex.no_inline = [r"Column::", r"Table::", r"Category::", r"closure", r"StringPool::", r"Value::", r"streamname::"]
    outs = ex.run(fn, [RefV(OpaqueV("package")), OpaqueV("table_name"), OpaqueV("columns")])
    g = Group("create_table_gate", ["package::Package::create_table_with_name (loops unrolled)", "package::Package::validate_catalog_rows (if present; inlined)"],
              confirm=_confirm_create,
              note="on every path of create_table on which a catalog insert or the in-memory registration is reached: before the FIRST of them, "
                   "every batch that create_table later hands to insert_rows (one row, one cell visited per batch) was gone through completely and "
                   "Column::is_valid_value held for every visited cell, and the catalog table each batch is checked against is the one it is "
                   "inserted into; so a definition that the catalog tables cannot store is refused before anything changes")
    nfirst = 0
    for k, o in enumerate(outs):
        evs = o.events
        first = next((n for n, e in enumerate(evs) if e[0] in ("insert_rows", "register")), None)
        if first is None:
            continue
        nfirst += 1
        before = evs[:first]
        inserts = [e for e in evs if e[0] == "insert_rows"]
        for ins in inserts:
            mm = re.match(r"^into\((.*?)\);rows=(.*)$", ins[1])
            if not mm:
                g.queries.append(Query("opaque_insert_%d_%d" % (k, len(g.queries)), o.pc, "unsat", note="insert_rows is handed %s, not an Insert::into(catalog).rows(batch)" % ins[1][:80]))
                continue
            cat, batch = mm.group(1), mm.group(2)
            done = any(e[0] == "iter-done" and e[1].endswith("|" + batch) for e in before)
            if not done:
                g.queries.append(Query("unchecked_%d_%d" % (k, len(g.queries)), o.pc, "unsat",
                                       note="the rows inserted into %s are not gone through completely before the first change (a definition %s cannot store is discovered only after earlier inserts)" % (cat, cat)))
                continue
            pos = next(n for n, e in enumerate(before) if e[0] == "iter-done" and e[1].endswith("|" + batch))
            cells = [e[1] for e in before[:pos] if e[0] == "elem" and re.fullmatch(re.escape(batch) + r"\[\d+\]\[\d+\]", e[1])]
            valids = [e for e in before if e[0] == "valid"]
            # the columns a cell is checked against: those of the catalog it goes into (or, when the catalog itself is
            # being created, the new table's own columns)
            for v in valids:
                if v[2] in cells:
                    mc = re.search(r"columns\(catalog\((.*?)\)\)", v[1])
                    if mc and mc.group(1) != cat:
                        g.queries.append(Query("wrong_catalog_%d_%d" % (k, len(g.queries)), o.pc, "unsat", note="the rows inserted into %s are checked against the columns of %s" % (cat, mc.group(1))))
            for c in cells:
                mine = [v for v in valids if v[2] == c]
                if not mine:
                    g.queries.append(Query("cell_unchecked_%d_%d" % (k, len(g.queries)), o.pc, "unsat", note="a cell of the %s batch is not passed to Column::is_valid_value before the first change" % cat))
                for v in mine:
                    g.queries.append(Query("cell_invalid_%d_%d" % (k, len(g.queries)), o.pc + [s_not(v[3])], "unsat", note="a cell the %s catalog cannot store gets past the checks to the first change" % cat))
        if len(g.witness) < 40 and inserts:
            g.witness.append(Query("w_%d" % k, o.pc, "sat"))
    g.queries.append(Query("paths", ["false"], "unsat", note="%d paths reach a catalog insert" % nfirst))
    if nfirst < 3:
        raise EncodingError("create_table gate: only %d paths reach a catalog insert" % nfirst)
    return [g]


def c05_builder_group(mir, ctx):
    """Insert::row / Insert::rows / Update::set: every cell value handed to a statement is stored in
    it only after passing through a function that maps the empty string to Null and leaves every
    other value alone -- so validation and key comparison see the value that will be stored
    (ValueRef::create stores "" as the null reference: C01's law)."""
    from .mir_protocol import _confirm_keys
    vsrc = open(os.path.join(REPO, "src/internal/value.rs")).read()
    vv = enum_variants(vsrc, "Value")
    for need in ("Null", "Int", "Str"):
        if need not in vv:
            raise EncodingError("Value has no variant %s" % need)
    g = Group("builder_normalisation", ["query::Insert::row", "query::Insert::rows", "query::Update::set", "the normalising function they apply"], confirm=_confirm_keys,
              note="Insert::row maps every value of the row through a crate function F before storing it, Insert::rows goes through Insert::row for "
                   "every row, Update::set stores F(value); and F(Null) = Null, F(Int(n)) = Int(n), F(Str(s)) = Null when s is empty and Str(s) otherwise")
    applied = set()

    def find1(rx, what):
        c = [f for n, fs in mir.fns.items() for f in fs if re.search(rx, n)]
        c = [f for f in c if what(f)]
        if len(c) != 1:
            raise EncodingError("builder %s not found uniquely (%d)" % (rx, len(c)))
        return c[0]

    f_row = find1(r"query::<impl at [^>]*>::row$", lambda f: f.args and "Insert" in f.args[0][1])
    f_rows = find1(r"query::<impl at [^>]*>::rows$", lambda f: f.args and "Insert" in f.args[0][1])
    f_set = find1(r"query::<impl at [^>]*>::set$", lambda f: f.args and "Update" in f.args[0][1])
    lens = {}
    it_models, what_of, coll = iter_models(ctx, lens, consistent=True)

    def m_map(ex, callee, args, pc, events):
        mm = re.search(r"map::<Value, fn\(Value\) -> Value \{([\w:]+)\}>", callee)
        fname = mm.group(1) if mm else "?closure"
        applied.add(fname)
        return [(pc, events, OpaqueV("map[%s](%s)" % (fname, what_of(ex, args[0]))))]

    def m_collect(ex, callee, args, pc, events):
        return [(pc, events, OpaqueV("vec(%s)" % what_of(ex, args[0])))]

    def m_push(ex, callee, args, pc, events):
        v = ex.load(args[1])
        w = getattr(v, "what", None)
        if w is None and isinstance(v, TupleV):
            w = "(" + ",".join(getattr(ex.load(f), "what", repr(ex.load(f))) for f in v.fields) + ")"
        return [(pc, events + [("store", coll(what_of(ex, args[0])), w)], TupleV([]))]

    def m_direct(ex, callee, args, pc, events):
        applied.add(callee.split("::")[-1])
        return [(pc, events, OpaqueV("F[%s](%s)" % (callee.split("::")[-1], what_of(ex, args[0]))))]

    def m_row_call(ex, callee, args, pc, events):
        return [(pc, events + [("row-call", what_of(ex, args[1]))], OpaqueV("insert"))]

    cand_f = [n for n, fs in mir.fns.items() for f in fs if len(f.args) == 1 and f.args[0][1].strip() == "Value" and (f.ret or "").strip() == "Value"]
    direct_rx = r"^(%s)$" % "|".join(re.escape(n.split("::")[-1]) for n in cand_f) if cand_f else r"^$never"
    base = [(r"as Iterator>::map::<", m_map), (r"as Iterator>::collect::<Vec<Value>>$", m_collect), (r"Vec::<.*>::push$", m_push),
            (r"as Into<String>>::into$", lambda ex, callee, args, pc, events: [(pc, events, OpaqueV("name"))])]
    # Insert::row
    ex = M.Exec(mir, ctx, models=base + it_models, havoc_unknown=True)
    ex.new_obj("ins", [OpaqueV("ins.table_name"), OpaqueV("ins.new_rows")])
    outs = [o for o in ex.run(f_row, [M.ObjV("ins"), OpaqueV("values")]) if o.kind == "return"]
    for k, o in enumerate(outs):
        st = [e for e in o.events if e[0] == "store"]
        ok = len(st) == 1 and re.fullmatch(r"vec\(map\[[\w:]+\]\(it#\d+\|values\)\)", st[0][2] or "") is not None
        g.queries.append(Query("row_%d" % k, ["false"] if ok else o.pc, "unsat", note="Insert::row stores %r, not the given values mapped through the normalising function" % (st,)))
    # Insert::rows: every element goes through Insert::row
    ex = M.Exec(mir, ctx, models=[(r"Insert::row$", m_row_call)] + base + it_models, havoc_unknown=True)
    ex.max_revisit = 3
    ex.new_obj("ins", [OpaqueV("ins.table_name"), OpaqueV("ins.new_rows")])
    outs = [o for o in ex.run(f_rows, [M.ObjV("ins"), OpaqueV("rows")]) if o.kind == "return"]
    for k, o in enumerate(outs):
        elems = [e[1] for e in o.events if e[0] == "elem" and re.fullmatch(r"rows\[\d+\]", e[1])]
        calls = [e[1] for e in o.events if e[0] == "row-call"]
        stores = [e for e in o.events if e[0] == "store"]
        ok = calls == elems and not stores and any(e[0] == "iter-done" for e in o.events)
        g.queries.append(Query("rows_%d" % k, ["false"] if ok else o.pc, "unsat", note="Insert::rows does not hand exactly its rows, in order, to Insert::row (rows %r, calls %r, direct stores %r)" % (elems, calls, stores)))
    # Update::set
    ex = M.Exec(mir, ctx, models=[(direct_rx, m_direct)] + base + it_models, havoc_unknown=True)
    ex.new_obj("upd", [OpaqueV("upd.f%d" % i) for i in range(3)])
    outs = [o for o in ex.run(f_set, [M.ObjV("upd"), OpaqueV("column_name"), OpaqueV("value")]) if o.kind == "return"]
    for k, o in enumerate(outs):
        st = [e for e in o.events if e[0] == "store"]
        ok = len(st) == 1 and re.search(r"F\[[\w:]+\]\(value\)", st[0][2] or "") is not None
        g.queries.append(Query("set_%d" % k, ["false"] if ok else o.pc, "unsat", note="Update::set stores %r, not (name, normalised value)" % (st,)))
    # the function(s) applied
    if not applied:
        g.queries.append(Query("no_function", [], "unsat", note="no normalising function is applied by the builders"))
    for fname in sorted(applied):
        fs = [f for n, fl in mir.fns.items() for f in fl if n.split("::")[-1] == fname.split("::")[-1] and len(f.args) == 1]
        if len(fs) != 1:
            raise EncodingError("normalising function %s not found uniquely" % fname)
        for vname in ("Null", "Int", "Str"):
            empty = ctx.fresh_bool("string_is_empty")
            mods = [(r"String::is_empty$|str::is_empty$|<impl str>::is_empty$", lambda ex, callee, args, pc, events, t=empty.term: [(pc, events + [("is_empty",)], BoolV(t))])]
            ex = M.Exec(mir, ctx, models=mods, havoc_unknown=True)
            inp = EnumV(variant=vv.index(vname), fields=[OpaqueV("payload")])
            for k, o in enumerate([o for o in ex.run(fs[0], [inp]) if o.kind == "return"]):
                r = o.value
                rv = vv[r.variant] if isinstance(r, EnumV) and isinstance(r.variant, int) and r.variant < len(vv) else (r.variant if isinstance(r, EnumV) else "?")
                same = isinstance(r, EnumV) and rv == vname and (not r.fields or getattr(r.fields[0], "what", "") == "payload")
                if vname != "Str":
                    g.queries.append(Query("f_%s_%d" % (vname, k), ["false"] if same else o.pc, "unsat", note="%s(%s) returns %r" % (fname, vname, r)))
                else:
                    asked = any(e[0] == "is_empty" for e in o.events)
                    if rv == "Null":
                        g.queries.append(Query("f_str_null_%d" % k, o.pc + [s_not(empty.term)] if asked else o.pc, "unsat", note="%s turns a non-empty string into Null" % fname))
                    elif same:
                        g.queries.append(Query("f_str_kept_%d" % k, o.pc + [empty.term] if asked else o.pc, "unsat", note="%s keeps the empty string as a string (it is then stored as the null reference without having been validated or compared as Null)" % fname))
                    else:
                        g.queries.append(Query("f_str_other_%d" % k, o.pc, "unsat", note="%s(Str) returns %r" % (fname, r)))
    g.witness.append(Query("w", [], "sat"))
    return [g]


def c10_set_codepage_group(mir, ctx):
    """PropertySet::set_codepage for every code page (symbolic discriminant) from a property set whose
    cached code page is arbitrary: afterwards the cached code page -- the one strings are encoded
    with on save -- is the one just set."""
    src = open(os.path.join(REPO, "src/internal/codepage.rs")).read()
    m = re.search(r"pub enum CodePage \{(.*?)\n\}", src, re.S)
    variants = re.findall(r"^\s*(\w+),\s*$", m.group(1), re.M) if m else []
    if len(variants) < 20:
        raise EncodingError("could not read CodePage variants")
    from .mir_protocol import struct_fields
    psrc = open(os.path.join(REPO, "src/internal/propset.rs")).read()
    pf = struct_fields(psrc, "PropertySet")
    if "codepage" not in pf:
        raise EncodingError("struct PropertySet has no field codepage")
    fn = mir.find(r"propset::.*::set_codepage$")
    d = ctx.fresh_int("codepage_discr", None, 0, len(variants) - 1)
    models = [(r"BTreeMap::<u32, PropertyValue>::insert$", lambda ex, callee, args, pc, events: [(pc, events + [("insert",)], EnumV(variant=0, fields=[]))])]
    ex = M.Exec(mir, ctx, models=models, havoc_unknown=True)
    ex.enum_index = {v: i for i, v in enumerate(enum_variants(psrc, "PropertyValue"))}
    ex.new_obj("ps", [OpaqueV("old-" + f) for f in pf])
    outs = ex.run(fn, [M.ObjV("ps"), EnumV(discr=d)])
    outs = outs + ex._pending_panics
    ex._pending_panics = []
    g = Group("set_codepage", ["propset::PropertySet::set_codepage", "propset::PropertySet::set", "codepage::CodePage::id", "codepage::CodePage::from_id"],
              confirm=_c10_codepage_confirm,
              note="for every one of the %d code pages: after set_codepage(cp) the property set's cached code page (used to encode every string on "
                   "save) is cp, and the code-page property was stored; no panic" % len(variants))
    n = 0
    for k, o in enumerate(outs):
        if o.kind == "panic":
            g.queries.append(Query("panic_%d" % k, o.pc, "unsat", get={"codepage_discr": d.term}, note="set_codepage can panic: %s" % o.msg))
            continue
        if o.kind != "return":
            continue
        n += 1
        got = o.heap["ps"][pf.index("codepage")]
        if isinstance(got, EnumV) and got.variant in variants:
            g.queries.append(Query("cached_%d" % k, o.pc + ["(not (= %s %d))" % (d.term, variants.index(got.variant))], "unsat", get={"codepage_discr": d.term},
                                   note="after set_codepage the cached code page is %s although another one was set" % got.variant))
        else:
            g.queries.append(Query("stale_%d" % k, o.pc, "unsat", get={"codepage_discr": d.term},
                                   note="set_codepage leaves the cached code page unchanged (strings are then saved in the previous code page under the new identifier)"))
        if not any(e[0] == "insert" for e in o.events):
            g.queries.append(Query("notstored_%d" % k, o.pc, "unsat", note="set_codepage does not store the code-page property"))
        g.witness.append(Query("w_%d" % k, o.pc, "sat"))
    if n < len(variants):
        raise EncodingError("set_codepage: only %d returning paths for %d code pages" % (n, len(variants)))
    return [g]


def c10_size_law_group(mir, ctx):
    """PropertyValue::write against PropertyValue::encoded_size_including_padding for EVERY value kind
    and EVERY code page / string: CodePage::encode is an uninterpreted function of (code page,
    string) whose result has a symbolic length L; the bytes `write` hands to the writer are counted
    from its MIR (padding loop unrolled) and compared with the size the offset table uses."""
    psrc = open(os.path.join(REPO, "src/internal/propset.rs")).read()
    pv = enum_variants(psrc, "PropertyValue")
    f_write = [f for n, fs in mir.fns.items() for f in fs if n.endswith("::write") and f.args and "PropertyValue" in f.args[0][1]]
    f_size = [f for n, fs in mir.fns.items() for f in fs if n.endswith("::encoded_size_including_padding")]
    if len(f_write) != 1 or len(f_size) != 1:
        raise EncodingError("PropertyValue::write / encoded_size_including_padding not found uniquely (%d, %d)" % (len(f_write), len(f_size)))
    g = Group("value_size_law", ["propset::PropertyValue::write", "propset::PropertyValue::encoded_size_including_padding"], confirm=_c10_codepage_confirm,
              note="for every kind of property value, every code page and every string: the number of bytes write() hands to the writer on its "
                   "successful path equals encoded_size_including_padding() -- the size PropertySet::write uses for the offset table -- and is a "
                   "multiple of 4; both take the string's length from the same CodePage::encode(code page, string)")
    lens_memo = {}

    def what(ex, a):
        v = ex.load(a)
        while isinstance(v, RefV):
            v = ex.load(v.target)
        return getattr(v, "what", repr(v))

    def m_encode(ex, callee, args, pc, events):
        return [(pc, events + [("encode", what(ex, args[0]), what(ex, args[1]))], OpaqueV("encoded(%s,%s)" % (what(ex, args[0]), what(ex, args[1]))))]

    def m_len(ex, callee, args, pc, events):
        k = what(ex, args[0])
        if k not in lens_memo:
            lens_memo[k] = IntV(ctx.fresh_int("encoded_len", None, 0, 0x7fffffff).term, "usize")
        return [(pc, events, lens_memo[k])]

    def m_w(nbytes):
        return lambda ex, callee, args, pc, events: [(pc, events + [("w", str(nbytes))], EnumV(variant=0, fields=[TupleV([])])),
                                                     (pc, events + [("w-err",)], EnumV(variant=1, fields=[OpaqueV("io::Error")]))]

    def m_write_all(ex, callee, args, pc, events):
        k = what(ex, args[1])
        k = re.sub(r"^slice:", "", k)
        if k not in lens_memo:
            lens_memo[k] = IntV(ctx.fresh_int("encoded_len", None, 0, 0x7fffffff).term, "usize")
        return [(pc, events + [("w", lens_memo[k].term)], EnumV(variant=0, fields=[TupleV([])])), (pc, events + [("w-err",)], EnumV(variant=1, fields=[OpaqueV("io::Error")]))]

    def m_range_next(ex, callee, args, pc, events):
        r = ex.load(args[0])
        while isinstance(r, RefV):
            r = ex.load(r.target) if not isinstance(r.target, (EnumV, TupleV)) else r.target
        st = ex.heap.setdefault("$range", {})
        key = "r"
        if key not in st:
            st[key] = 0
        end = r.fields[1] if isinstance(r, EnumV) and len(r.fields) == 2 else None
        if not isinstance(end, IntV):
            raise EncodingError("Range::next over %r" % (r,))
        k = st[key]
        hp_some = copy.deepcopy(ex.heap)
        hp_some["$range"][key] = k + 1
        return [(pc + ["(< %d %s)" % (k, end.term)], events, EnumV(variant=1, fields=[M.mk_int(k, "u32")]), hp_some),
                (pc + ["(>= %d %s)" % (k, end.term)], events, EnumV(variant=0, fields=[]), copy.deepcopy(ex.heap))]

    lens = {}
    it_models, what_of, coll = iter_models(ctx, lens)
    models = [(r"CodePage::encode$", m_encode), (r"Vec::<u8>::len$", m_len), (r"String::as_str$|<String as Deref>::deref$|<Vec<u8> as Deref>::deref$", lambda ex, callee, args, pc, events: [(pc, events, OpaqueV(what(ex, args[0])))]),
              (r"WriteBytesExt>::write_u32::<", m_w(4)), (r"WriteBytesExt>::write_i32::<", m_w(4)), (r"WriteBytesExt>::write_u16::<", m_w(2)), (r"WriteBytesExt>::write_i16::<", m_w(2)),
              (r"WriteBytesExt>::write_u8$", m_w(1)), (r"WriteBytesExt>::write_i8$", m_w(1)), (r"WriteBytesExt>::write_u64::<", m_w(8)), (r"WriteBytesExt>::write_i64::<", m_w(8)),
              (r"as (std::io::)?Write>::write_all$", m_write_all), (r"Timestamp::write_to::<", m_w(8)),
              (r"<std::ops::Range<u32> as Iterator>::next$", m_range_next),
              (r"<std::ops::Range<u32> as IntoIterator>::into_iter$", lambda ex, callee, args, pc, events: [(pc, events, ex.load(args[0]))])] + it_models
    n = 0
    for vname in pv:
        val = EnumV(variant=pv.index(vname), fields=[OpaqueV("payload")])
        exs = M.Exec(mir, ctx, models=models, havoc_unknown=True)
        exs.enum_index = {v: i for i, v in enumerate(pv)}
        sizes = [o for o in exs.run(f_size[0], [RefV(val), OpaqueV("codepage")]) if o.kind == "return"]
        exw = M.Exec(mir, ctx, models=models, havoc_unknown=True)
        exw.enum_index = exs.enum_index
        exw.max_revisit = 6
        outs = exw.run(f_write[0], [RefV(val), OpaqueV("writer"), OpaqueV("codepage")])
        outs = outs + exw._pending_panics
        exw._pending_panics = []
        for so in sizes:
            if not isinstance(so.value, IntV):
                raise EncodingError("encoded_size_including_padding(%s) returns %r" % (vname, so.value))
            g.queries.append(Query("size_mod4_%s_%d" % (vname, len(g.queries)), so.pc + ["(not (= (mod %s 4) 0))" % so.value.term], "unsat", note="the size of a %s value is not a multiple of 4" % vname))
            for k, o in enumerate(outs):
                if o.kind == "panic":
                    g.queries.append(Query("write_panic_%s_%d" % (vname, len(g.queries)), so.pc + o.pc, "unsat", note="write(%s) can panic: %s" % (vname, o.msg)))
                    continue
                if o.kind != "return" or not (isinstance(o.value, EnumV) and o.value.variant in (0, "Ok")) or any(e[0] == "w-err" for e in o.events):
                    continue
                n += 1
                total = "(+ 0 %s)" % " ".join(e[1] for e in o.events if e[0] == "w") if any(e[0] == "w" for e in o.events) else "0"
                g.queries.append(Query("size_%s_%d" % (vname, len(g.queries)), so.pc + o.pc + ["(not (= %s %s))" % (total, so.value.term)], "unsat", get={t.term: t.term for t in lens_memo.values()},
                                       note="write() emits a number of bytes for a %s value that differs from the size used for the offset table" % vname))
                enc_w = [e for e in o.events if e[0] == "encode"]
                enc_s = [e for e in so.events if e[0] == "encode"]
                if enc_w != enc_s:
                    g.queries.append(Query("same_encode_%s_%d" % (vname, len(g.queries)), so.pc + o.pc, "unsat", note="write() and the size computation do not take the length from the same CodePage::encode call: %r vs %r" % (enc_w, enc_s)))
                if len(g.witness) < 40:
                    g.witness.append(Query("w_%s_%d" % (vname, k), so.pc + o.pc, "sat"))
    if n < len(pv):
        raise EncodingError("value size law: only %d successful write paths for %d value kinds" % (n, len(pv)))
    return [g]


def _c10_codepage_confirm(model, native):
    out = native("native::protocol::replay_summary_codepages", {})
    if not out.get("_ran"):
        return None, "native replay did not run"
    if out.get("_panicked"):
        return True, "native summary code-page replay panicked: %s" % out.get("_panic_msg")
    return (out.get("differs") == 1), (out.get("witness") or "summary strings survive every code-page switch natively")


def c06_enum_gate_group(mir, ctx):
    """create_table_with_name up to its first catalog insert, column loop unrolled (<= 1 column with
    <= 2 enumeration values): enumeration values are stored joined by ';' in _Validation.Set and
    split at ';' when the package is opened, so a value that is empty or contains ';' does not
    reopen as it was created -- such a definition must be refused."""
    fn = mir.find(r"package::.*::create_table_with_name$")
    from .mir_protocol import _confirm_create
    lens = {}
    it_models, what_of, coll = iter_models(ctx, lens, consistent=True)

    def m_bool(name):
        return lambda ex, callee, args, pc, events: [(pc, events, BoolV(ctx.fresh_bool(name).term))]

    def m_enum_values(ex, callee, args, pc, events):
        c = what_of(ex, args[0])
        return [(pc, events + [("enum", c, True)], EnumV(variant=1, fields=[OpaqueV("slice:enum(%s)" % c)])), (pc, events + [("enum", c, False)], EnumV(variant=0, fields=[]))]

    def m_pred(tag):
        def f(ex, callee, args, pc, events):
            b = ctx.fresh_bool(tag)
            return [(pc, events + [(tag, what_of(ex, args[0]), b.term)], BoolV(b.term))]
        return f

    def m_first(ex, callee, args, pc, events):
        return [(pc, events + [("first-change",)], EnumV(variant=0, fields=[TupleV([])]))]

    models = [
        (r"Column::enum_values$", m_enum_values),
        (r"String::is_empty$|impl str>::is_empty$", m_pred("empty?")), (r"impl str>::contains::<char>$|String::contains", m_pred("semi?")),
        (r"<String as Deref>::deref$|String::as_str$", lambda ex, callee, args, pc, events: [(pc, events, OpaqueV(what_of(ex, args[0])))]),
        (r"Package::<F>::insert_rows$|Package::<F>::validate_catalog_rows$", m_first),
        (r"BTreeMap::<String, Rc<Table>>::contains_key::<", m_bool("table_exists")), (r"Table::is_valid_name$|Column::is_valid_name$", m_bool("name_ok")),
        (r"HashSet::<&str>::contains::<", m_bool("dup_name")), (r"HashSet::<&str>::insert$", lambda ex, callee, args, pc, events: [(pc, events, BoolV("true", True))]),
        (r"as Iterator>::any::<", m_bool("has_primary_key")),
    ] + it_models

    def stop_at(f, bb, term):
        return None

    ex = M.Exec(mir, ctx, models=models, havoc_unknown=True, max_paths=200000)
    ex.max_revisit = 3
    ex.no_inline = [r"Column::", r"Table::", r"Category::", r"closure", r"StringPool::", r"Value::", r"streamname::", r"Insert::"]
    outs = ex.run(fn, [RefV(OpaqueV("package")), OpaqueV("table_name"), OpaqueV("columns")])
    g = Group("enum_values_storable", ["package::Package::create_table_with_name (column loop unrolled)"], confirm=_confirm_create,
              note="on every path on which create_table gets as far as its first catalog step, every enumeration value (<= 2) of every column "
                   "visited (<= 2) was found non-empty and free of ';' -- the only values that survive being joined by ';' and split again")
    n = 0
    for k, o in enumerate(outs):
        evs = o.events
        first = next((i for i, e in enumerate(evs) if e[0] == "first-change"), None)
        if first is None:
            continue
        n += 1
        before = evs[:first]
        cols = sorted(set(x[1] for x in before if x[0] == "elem" and re.fullmatch(r"columns\[\d+\]", x[1])))
        for c in cols:
            if not any(x[0] == "enum" and x[1] == c for x in before):
                g.queries.append(Query("unconsulted_%d_%d" % (k, len(g.queries)), o.pc, "unsat",
                                       note="create_table reaches its catalog inserts without looking at a column's enumeration values at all (a value that is empty or "
                                            "contains ';' is stored joined by ';' and reopens as different values)"))
        for e in before:
            if e[0] == "enum" and e[2]:
                ecoll = "enum(%s)" % e[1]
                done = any(x[0] == "iter-done" and x[1].endswith("|" + ecoll) for x in before)
                if not done:
                    g.queries.append(Query("unscanned_%d_%d" % (k, len(g.queries)), o.pc, "unsat",
                                           note="create_table reaches its catalog inserts without going through a column's enumeration values (a value that is empty or contains ';' is stored joined by ';' and reopens as different values)"))
                    continue
                for x in before:
                    if x[0] == "elem" and re.fullmatch(re.escape(ecoll) + r"\[\d+\]", x[1]):
                        for tag, what in (("empty?", "empty"), ("semi?", "containing ';'")):
                            asked = [y for y in before if y[0] == tag and y[1] == x[1]]
                            if not asked:
                                g.queries.append(Query("unasked_%d_%d" % (k, len(g.queries)), o.pc, "unsat", note="an enumeration value is not tested for being %s before the catalog inserts" % what))
                            for y in asked:
                                g.queries.append(Query("bad_%d_%d" % (k, len(g.queries)), o.pc + [y[2]], "unsat", note="an enumeration value that is %s gets as far as the catalog inserts" % what))
        if len(g.witness) < 30:
            g.witness.append(Query("w_%d" % k, o.pc, "sat"))
    if n < 3:
        raise EncodingError("enum gate: only %d paths reach the first catalog step" % n)
    return [g]


def c20_insert_row_limit_group(mir, ctx):
    """Insert::exec: the table is rewritten only if (rows already there) + (rows of the batch) stays within the number of
    rows Table::read_rows accepts -- otherwise the library would save a table it then refuses to read."""
    cands = [f for n, fs in mir.fns.items() for f in fs if n.endswith("::exec") and f.args and re.search(r"\bInsert\b", f.args[0][1])]
    if len(cands) != 1:
        raise EncodingError("Insert::exec not found uniquely in the MIR dump (%d)" % len(cands))
    fn = cands[0]
    from .mir_protocol import struct_fields, _confirm_rowlimit
    # the reader's limit, from the source
    tsrc = open(os.path.join(REPO, "src/internal/table.rs")).read()
    ml = re.search(r"const MAX_NUM_TABLE_ROWS: usize = (\d+);", tsrc) or re.search(r"if num_rows > (\d+) \{", tsrc)
    if not ml:
        raise EncodingError("the reader's row limit was not found in table.rs")
    LIMIT = int(ml.group(1))
    lens = {}
    it_models, what_of, coll = iter_models(ctx, lens, consistent=True)
    batch_len = ctx.fresh_int("batch_rows", None, 0, 1 << 40)

    def m_map_len(ex, callee, args, pc, events):
        e = ctx.fresh_int("existing_rows", None, 0, 1 << 40)
        return [(pc, events + [("map-len", e.term)], IntV(e.term, "usize"))]

    def m_vec_len(ex, callee, args, pc, events):
        w = coll(what_of(ex, args[0]))
        if w == "insert.new_rows":
            return [(pc, events + [("batch-len",)], IntV(batch_len.term, "usize"))]
        k = "len:" + w
        if k not in lens:
            lens[k] = ctx.fresh_int("len", "usize")
        return [(pc, events, lens[k])]

    def m_ev(tag, ret):
        return lambda ex, callee, args, pc, events: [(pc, events + [(tag,)], ret())]

    models = [
        (r"BTreeMap::<String, Rc<Table>>::get::<", lambda ex, callee, args, pc, events: [(pc, events, EnumV(variant=1, fields=[OpaqueV("rc-table")]))]),
        (r"Column::is_valid_value$", lambda ex, callee, args, pc, events: [(pc, events, BoolV("true", True))]),
        (r"BTreeMap::<Vec<Value>, Vec<ValueRef>>::len$", m_map_len), (r"Vec::<Vec<Value>>::len$", m_vec_len),
        (r"BTreeMap::<Vec<Value>, Vec<ValueRef>>::contains_key::<|HashSet::<Vec<Value>>::contains::<", lambda ex, callee, args, pc, events: [(pc, events, BoolV("false", False))]),
        (r"HashSet::<Vec<Value>>::insert$", lambda ex, callee, args, pc, events: [(pc, events, BoolV("true", True))]),
        (r"BTreeMap::<Vec<Value>, Vec<ValueRef>>::insert$", m_ev("map-insert", lambda: EnumV(variant=0, fields=[]))),
        (r"Table::write_rows::<", m_ev("write", lambda: EnumV(variant=0, fields=[TupleV([])]))),
    ] + it_models
    ex = M.Exec(mir, ctx, models=models, havoc_unknown=True, max_paths=400000)
    ex.max_revisit = 2
    ex.no_inline = [r"Table::(stream_name|name|columns|long_string_refs|read_rows|primary_key_indices|write_rows)", r"ValueRef::", r"closure"]
    qsrc = open(os.path.join(REPO, "src/internal/query.rs")).read()
    ex.new_obj("insert", [OpaqueV("insert." + f) for f in struct_fields(qsrc, "Insert")])
    outs = ex.run(fn, [M.ObjV("insert"), OpaqueV("comp"), OpaqueV("pool"), OpaqueV("tables")])
    outs = outs + ex._pending_panics
    ex._pending_panics = []
    g = Group("insert_row_limit", ["query::Insert::exec"], confirm=_confirm_rowlimit,
              note="on every path of Insert::exec that rewrites the table: before any row of the batch is stored, the number of rows already in the "
                   "table and the number of rows of the batch were read and their sum is at most %d, the number of rows Table::read_rows accepts "
                   "(symbolic counts); no arithmetic panic on the way" % LIMIT)
    n = 0
    for k, o in enumerate(outs):
        if o.kind == "panic":
            if "overflow" in (o.msg or ""):
                g.queries.append(Query("panic_%d" % k, o.pc, "unsat", note="Insert::exec can panic: %s" % o.msg))
            continue
        evs = o.events
        if not any(e[0] == "write" for e in evs):
            continue
        n += 1
        # the first store of a BATCH row (map-inserts while the existing rows are loaded do not count)
        cur_batch, first_store = False, len(evs)
        for i, e in enumerate(evs):
            if e[0] == "elem" and not re.search(r"\]\[|\]\.", e[1]):
                cur_batch = re.fullmatch(r"insert\.new_rows\[\d+\]", e[1]) is not None
            elif (e[0] == "map-insert" and cur_batch) or e[0] == "write":
                first_store = i
                break
        before = evs[:first_store]
        mls = [e for e in before if e[0] == "map-len"]
        if not mls or not any(e[0] == "batch-len" for e in before):
            g.queries.append(Query("unlimited_%d" % k, o.pc, "unsat",
                                   note="the table is rewritten without the resulting number of rows having been compared with the reader's limit of %d rows "
                                        "(a table with more rows is saved and then refused by the library's own reader)" % LIMIT))
        else:
            g.queries.append(Query("limit_%d" % k, o.pc + ["(> (+ %s %s) %d)" % (mls[-1][1], batch_len.term, LIMIT)], "unsat",
                                   get={"existing_rows": mls[-1][1], "batch_rows": batch_len.term}, note="a batch that brings the table above %d rows is stored" % LIMIT))
            g.queries.append(Query("accepts_%d" % k, o.pc + ["(<= (+ %s %s) %d)" % (mls[-1][1], batch_len.term, LIMIT)], "sat", note="(reachability) batches within the limit are accepted"))
        if len(g.witness) < 20:
            g.witness.append(Query("w_%d" % k, o.pc, "sat"))
    if n < 2:
        raise EncodingError("insert row limit: only %d paths reach the write" % n)
    return [g]


def c15_writers_flush_group(mir, ctx):
    """Table::write_rows, StringPool::write_pool / write_data, PropertySet::write with their loops unrolled (<= 2 rows /
    entries / properties): every operation on the caller's writer `W` is a fallible event (a symbolic fault schedule); any
    wrapper the function puts around `W` is crate code and is executed, not trusted."""
    from .mir_protocol import _confirm
    targets = [("write_rows", r"table::.*::write_rows$"), ("write_pool", r"stringpool::.*::write_pool$"), ("write_data", r"stringpool::.*::write_data$"),
               ("PropertySet::write", None)]
    g = Group("writers_flush", ["table::Table::write_rows", "stringpool::StringPool::write_pool", "stringpool::StringPool::write_data", "propset::PropertySet::write"],
              confirm=_confirm,
              note="under every schedule of failing operations on the caller's writer W (<= 2 rows / entries / properties): the function returns Ok only if "
                   "every operation it issued on W returned Ok, the last of them is W's own flush(), and nothing is written to W after that flush -- "
                   "so bytes still buffered in a by-value stream when the function returns Ok have been flushed through to the medium")
    total = 0
    for label, rx in targets:
        if rx is None:
            cands = [f for n, fs in mir.fns.items() for f in fs if n.endswith("::write") and f.args and "PropertySet" in f.args[0][1] and len(f.args) == 2]
            if len(cands) != 1:
                raise EncodingError("PropertySet::write not found uniquely (%d)" % len(cands))
            fn = cands[0]
        else:
            fn = mir.find(rx)
        lens = {}
        it_models, what_of, coll = iter_models(ctx, lens, consistent=True)

        def m_w(ex, callee, args, pc, events, label=label):
            op = re.sub(r"::<.*$", "", callee).split("::")[-1]
            i = sum(1 for e in events if e[0] == "W")
            return [(pc, events + [("W", op, "Ok")], EnumV(variant=0, fields=[OpaqueV("n") if op == "write" else TupleV([])])),
                    (pc, events + [("W", op, "Err")], EnumV(variant=1, fields=[OpaqueV("io::Error@%s#%d" % (op, i))]))]

        models = [(r"^<(&mut )?W as (std::io::)?(Write|Read|Seek)>::by_ref$", lambda ex, callee, args, pc, events: [(pc, events, ex.load(args[0]))]),
                  (r"^<W as (std::io::)?Write>::\w+$|^<W as WriteBytesExt>::\w+(::<.*>)?$|^<&mut W as (std::io::)?Write>::\w+$|^<&mut W as WriteBytesExt>::\w+(::<.*>)?$", m_w),
                  (r"CodePage::encode$", lambda ex, callee, args, pc, events: [(pc, events, OpaqueV("bytes"))]),
                  (r"BTreeMap::<u32, PropertyValue>::(len|iter|keys|values)$", None)] + it_models
        models = [(rx_, f) for rx_, f in models if f is not None]
        ex = M.Exec(mir, ctx, models=models, havoc_unknown=True, max_paths=400000)
        ex.max_revisit = deeper(3)
        ex.no_inline = [r"ColumnType::", r"Column::", r"Timestamp::", r"CodePage::", r"Value", r"StringRef", r"closure"]
        psrc = open(os.path.join(REPO, "src/internal/propset.rs")).read()
        ex.enum_index = {v: i for i, v in enumerate(enum_variants(psrc, "PropertyValue"))}
        args = [RefV(OpaqueV("self")), OpaqueV("writer")] + ([OpaqueV("rows")] if label == "write_rows" else [])
        outs = ex.run(fn, args)
        nok = 0
        for k, o in enumerate(outs):
            if o.kind != "return" or not (isinstance(o.value, EnumV) and o.value.variant in (0, "Ok")):
                continue
            nok += 1
            ws = [e for e in o.events if e[0] == "W"]
            errs = [e for e in ws if e[2] == "Err"]
            if errs:
                g.queries.append(Query("%s_swallowed_%d" % (label, len(g.queries)), o.pc, "unsat", note="%s returns Ok although %s on the caller's writer failed" % (label, errs[0][1])))
            if not ws or ws[-1][1] != "flush":
                g.queries.append(Query("%s_noflush_%d" % (label, len(g.queries)), o.pc, "unsat",
                                       note="%s returns Ok without a final flush() of the caller's writer (last operation on it: %s) -- bytes still buffered in the stream are lost if its drop-time flush fails" % (label, ws[-1][1] if ws else "none")))
            if len(g.witness) < 40:
                g.witness.append(Query("w_%s_%d" % (label, k), o.pc, "sat"))
        if nok < 1:
            raise EncodingError("%s: no Ok-returning path" % label)
        total += nok
    g.queries.append(Query("paths", ["false"], "unsat", note="%d Ok-returning paths examined" % total))
    return [g]


def c02_propset_codepage_group(mir, ctx):
    """PropertySet::read with its two loops unrolled (<= 2 directory entries / values), every reader call
    succeeding with an arbitrary value: whatever order the values are laid out and listed in, every value that
    ends up in the returned property set was decoded with the code page the returned set reports."""
    cands = [f for n, fs in mir.fns.items() for f in fs if n.endswith("::read") and (f.ret or "").replace(" ", "").startswith("Result<PropertySet,")]
    if len(cands) != 1:
        raise EncodingError("PropertySet::read not found uniquely (%d)" % len(cands))
    fn = cands[0]
    from .mir_protocol import struct_fields
    psrc = open(os.path.join(REPO, "src/internal/propset.rs")).read()
    pf = struct_fields(psrc, "PropertySet")
    pv = enum_variants(psrc, "PropertyValue")
    lens = {}
    it_models, what_of, coll = iter_models(ctx, lens, consistent=True)
    nread = [0]

    def whatv(ex, a):
        v = ex.load(a)
        while isinstance(v, RefV):
            v = ex.load(v.target)
        return getattr(v, "what", repr(v))

    def m_int(ty):
        return lambda ex, callee, args, pc, events: [(pc, events, EnumV(variant=0, fields=[ctx.fresh_int("field", ty)]))]

    def m_ok_unit(ex, callee, args, pc, events):
        return [(pc, events, EnumV(variant=0, fields=[TupleV([])]))]

    def m_pv_read(ex, callee, args, pc, events):
        nread[0] += 1
        k = nread[0]
        cp = whatv(ex, args[1])
        i2 = EnumV(variant=pv.index("I2"), fields=[ctx.fresh_int("i2_payload", "i16")], ty="PropertyValue::I2")
        st = EnumV(variant=pv.index("LpStr"), fields=[OpaqueV("text#%d" % k)], ty="PropertyValue::LpStr")
        i2.tag = k
        st.tag = k
        return [(pc, events + [("pv-read", k, cp)], EnumV(variant=0, fields=[i2])), (pc, events + [("pv-read", k, cp)], EnumV(variant=0, fields=[st]))]

    def m_from_id(ex, callee, args, pc, events):
        k = sum(1 for e in events if e[0] == "from-id")
        return [(pc, events + [("from-id", k)], EnumV(variant=1, fields=[OpaqueV("cp-from-file#%d" % k)])), (pc, events + [("from-id", k)], EnumV(variant=0, fields=[]))]

    def m_get(ex, callee, args, pc, events):
        return [(pc, events + [("cp-entry", True)], EnumV(variant=1, fields=[RefV(ctx.fresh_int("cp_offset", "u32"))])), (pc, events + [("cp-entry", False)], EnumV(variant=0, fields=[]))]

    def m_store(ex, callee, args, pc, events):
        v = ex.load(args[2])
        return [(pc, events + [("store", getattr(v, "tag", None))], EnumV(variant=0, fields=[]))]

    def m_range_next(ex, callee, args, pc, events):
        st = ex.heap.setdefault("$range", {"k": 0})
        k = st["k"]
        hp = copy.deepcopy(ex.heap)
        hp["$range"]["k"] = k + 1
        return [(pc, events, EnumV(variant=1, fields=[M.mk_int(k, "u32")]), hp), (pc, events, EnumV(variant=0, fields=[]), copy.deepcopy(ex.heap))]

    models = [
        (r"ReadBytesExt>::read_u16::<", m_int("u16")), (r"ReadBytesExt>::read_u32::<", m_int("u32")), (r"as (std::io::)?Read>::read_exact$", m_ok_unit),
        (r"as Seek>::seek$", lambda ex, callee, args, pc, events: [(pc, events, EnumV(variant=0, fields=[ctx.fresh_int("pos", "u64")]))]),
        (r"as (std::io::)?Read>::by_ref$", lambda ex, callee, args, pc, events: [(pc, events, ex.load(args[0]))]),
        (r"^PropertyValue::read::<", m_pv_read), (r"CodePage::from_id$", m_from_id), (r"<CodePage as Default>::default$", lambda ex, callee, args, pc, events: [(pc, events, OpaqueV("cp-default"))]),
        (r"BTreeMap::<u32, u32>::get::<", m_get), (r"BTreeMap::<u32, u32>::contains_key::<", lambda ex, callee, args, pc, events: [(pc, events, BoolV("false", False))]),
        (r"BTreeMap::<u32, PropertyValue>::insert$", m_store), (r"BTreeMap::<u32, PropertyValue>::contains_key::<", lambda ex, callee, args, pc, events: [(pc, events, BoolV("false", False))]),
        (r"<std::ops::Range<u32> as Iterator>::next$", m_range_next), (r"<std::ops::Range<u32> as IntoIterator>::into_iter$", lambda ex, callee, args, pc, events: [(pc, events, ex.load(args[0]))]),
        (r"PartialOrd>::gt$", lambda ex, callee, args, pc, events: [(pc, events, BoolV("false", False))]),
    ] + it_models
    ex = M.Exec(mir, ctx, models=models, havoc_unknown=True, max_paths=400000)
    ex.max_revisit = deeper(3)
    ex.no_inline = [r"PropertyValue::(minimum_version|type_name)$", r"PropertyFormatVersion::", r"closure", r"sort"]
    outs = ex.run(fn, [OpaqueV("reader")])
    g = Group("propset_codepage", ["propset::PropertySet::read (loops unrolled)"], confirm=_c02_propset_confirm,
              note="for every layout of <= 2 values: each value stored in the returned property set was read with exactly the code page the returned set "
                   "reports (the one named by property 1 when the directory lists it, the default otherwise) -- independently of where property 1 is laid "
                   "out or listed")
    n = 0
    for k, o in enumerate(outs):
        if o.kind != "return" or not (isinstance(o.value, EnumV) and o.value.variant in (0, "Ok")):
            continue
        ps = o.value.fields[0]
        if not (isinstance(ps, EnumV) and len(ps.fields) == len(pf)):
            raise EncodingError("PropertySet::read returns %r" % (ps,))
        n += 1
        cpv = ps.fields[pf.index("codepage")]
        cpw = getattr(cpv, "what", repr(cpv))
        reads = {e[1]: e[2] for e in o.events if e[0] == "pv-read"}
        stored = [e[1] for e in o.events if e[0] == "store"]
        for tg in stored:
            if tg is None or tg not in reads:
                g.queries.append(Query("untracked_%d_%d" % (k, len(g.queries)), o.pc, "unsat", note="a value is stored in the property set that does not come from PropertyValue::read"))
            elif reads[tg] != cpw:
                g.queries.append(Query("wrong_codepage_%d_%d" % (k, len(g.queries)), o.pc, "unsat",
                                       note="a stored value was decoded with %s although the property set reports %s (a string laid out before the code-page property is decoded in the wrong code page)" % (reads[tg], cpw)))
        entry = [e for e in o.events if e[0] == "cp-entry"]
        if entry and entry[-1][1] and not cpw.startswith("cp-from-file"):
            g.queries.append(Query("declared_ignored_%d" % k, o.pc, "unsat", note="the directory lists a code-page property but the returned property set reports %s" % cpw))
        if len(g.witness) < 40 and stored:
            g.witness.append(Query("w_%d" % k, o.pc, "sat"))
    g.queries.append(Query("paths", ["false"], "unsat", note="%d Ok-returning paths examined" % n))
    if n < 3 or not g.witness:
        raise EncodingError("propset code page: %d Ok paths, %d with stored values" % (n, len(g.witness)))
    return [g]


def c09_propvalue_read_group(mir, ctx):
    """PropertyValue::read on an arbitrary reader (every read succeeds with an arbitrary value or fails), string loop unrolled
    (<= 2 bytes read): no arithmetic / index / unwrap panic for any type tag and any length field."""
    cands = [f for n, fs in mir.fns.items() for f in fs if re.search(r"propset::<impl at [^>]*>::read$", n) and (f.ret or "").replace(" ", "").startswith("Result<PropertyValue,")]
    if len(cands) != 1:
        raise EncodingError("PropertyValue::read not found uniquely (%d)" % len(cands))
    fn = cands[0]
    lens = {}
    it_models, what_of, coll = iter_models(ctx, lens, consistent=True)

    def m_int(ty):
        return lambda ex, callee, args, pc, events: [(pc, events, EnumV(variant=0, fields=[ctx.fresh_int("read_" + ty, ty)])),
                                                     (pc, events, EnumV(variant=1, fields=[OpaqueV("io::Error")]))]

    def m_range_next(ex, callee, args, pc, events):
        r = ex.load(args[0])
        while isinstance(r, RefV):
            r = r.target if isinstance(r.target, (EnumV, TupleV)) else ex.load(r.target)
        end = r.fields[1] if isinstance(r, EnumV) and len(r.fields) == 2 else None
        if not isinstance(end, IntV):
            raise EncodingError("Range::next over %r" % (r,))
        st = ex.heap.setdefault("$range", {"k": 0})
        k = st["k"]
        hp = copy.deepcopy(ex.heap)
        hp["$range"]["k"] = k + 1
        return [(pc + ["(< %d %s)" % (k, end.term)], events, EnumV(variant=1, fields=[M.mk_int(k, "u32")]), hp),
                (pc + ["(>= %d %s)" % (k, end.term)], events, EnumV(variant=0, fields=[]), copy.deepcopy(ex.heap))]

    def m_read_to_end(ex, callee, args, pc, events):
        n = ctx.fresh_int("bytes_read", "usize")
        lens["len:buffer"] = n
        return [(pc, events + [("read_to_end", n.term)], EnumV(variant=0, fields=[n])), (pc, events, EnumV(variant=1, fields=[OpaqueV("io::Error")]))]

    def m_vec_len(ex, callee, args, pc, events):
        if "len:buffer" not in lens:
            lens["len:buffer"] = ctx.fresh_int("buffer_len", "usize")
        return [(pc, events, lens["len:buffer"])]

    def m_index(ex, callee, args, pc, events):
        i = ex.load(args[1])
        if "len:buffer" not in lens:
            lens["len:buffer"] = ctx.fresh_int("buffer_len", "usize")
        n = lens["len:buffer"]
        if not isinstance(i, IntV):
            return [(pc, events, OpaqueV("byte"))]
        oob = "(>= %s %s)" % (i.term, n.term)
        return [(pc + [s_not(oob)], events, RefV(ctx.fresh_int("byte", "u8"))),
                (pc + [oob], events, Outcome("panic", pc + [oob], msg="index out of bounds: the buffer holds fewer bytes than the length field says", events=events))]

    models = [
        (r"ReadBytesExt>::read_u32::<", m_int("u32")), (r"ReadBytesExt>::read_i32::<", m_int("i32")), (r"ReadBytesExt>::read_i16::<", m_int("i16")),
        (r"ReadBytesExt>::read_u16::<", m_int("u16")), (r"ReadBytesExt>::read_u8$", m_int("u8")), (r"ReadBytesExt>::read_i8$", m_int("i8")),
        (r"ReadBytesExt>::read_u64::<", m_int("u64")), (r"Timestamp::read_from::<", lambda ex, callee, args, pc, events: [(pc, events, EnumV(variant=0, fields=[OpaqueV("timestamp")])), (pc, events, EnumV(variant=1, fields=[OpaqueV("io::Error")]))]),
        (r"<std::ops::Range<u32> as Iterator>::next$", m_range_next), (r"<std::ops::Range<u32> as IntoIterator>::into_iter$", lambda ex, callee, args, pc, events: [(pc, events, ex.load(args[0]))]),
        (r"as (std::io::)?Read>::read_to_end$", m_read_to_end), (r"Vec::<u8>::len$", m_vec_len),
        (r"<Vec<u8> as Index<usize>>::index$", m_index),
        (r"CodePage::decode$", lambda ex, callee, args, pc, events: [(pc, events, OpaqueV("text"))]),
    ] + it_models
    ex = M.Exec(mir, ctx, models=models, havoc_unknown=True)
    ex.max_revisit = deeper(3)
    ex.no_inline = [r"CodePage::", r"Timestamp::"]
    outs = ex.run(fn, [OpaqueV("reader"), OpaqueV("codepage")])
    outs = outs + ex._pending_panics
    ex._pending_panics = []
    g = Group("propvalue_read_total", ["propset::PropertyValue::read (string loop unrolled)"], confirm=_c09_propvalue_confirm,
              note="PropertyValue::read returns a value or an error for every type tag, every length field and every behaviour of the reader "
                   "(<= 2 string bytes read one by one): no arithmetic overflow, no index out of bounds, no unwrap")
    n = 0
    for k, o in enumerate(outs):
        if o.kind == "panic":
            g.queries.append(Query("panic_%d" % k, o.pc, "unsat", note="PropertyValue::read can panic: %s" % o.msg))
        elif o.kind == "return":
            n += 1
            if len(g.witness) < 30:
                g.witness.append(Query("w_%d" % k, o.pc, "sat"))
    g.queries.append(Query("paths", ["false"], "unsat", note="%d returning paths" % n))
    if n < 8:
        raise EncodingError("PropertyValue::read: only %d returning paths" % n)
    return [g]


def _c09_propvalue_confirm(model, native):
    out = native("native::c02::replay_propvalue_read_total", {})
    if not out.get("_ran"):
        return None, "native replay did not run"
    if out.get("_panicked"):
        return True, "native replay panicked: %s" % out.get("_panic_msg")
    return (out.get("differs") == 1), (out.get("witness") or "PropertyValue::read returns on all %s byte strings natively" % out.get("checked"))


def _c02_propset_confirm(model, native):
    out = native("native::c02::replay_propset_layouts", {})
    if not out.get("_ran"):
        return None, "native replay did not run"
    if out.get("_panicked"):
        return True, "native property-set replay panicked: %s" % out.get("_panic_msg")
    return (out.get("differs") == 1), (out.get("witness") or "all %s layouts of an independently encoded property set read back in the declared code page" % out.get("checked"))


def c05_all(mir, ctx):
    return c05_update_group(mir, ctx) + c05_insert_group(mir, ctx) + c05_builder_group(mir, ctx)


def c12_column_lookup_group(mir, ctx):
    """Table::index_for_column_name, loop unrolled (<= 3 columns): the index returned is that of the
    FIRST column whose name equals the argument (so in a self-join, where both sides contribute
    the same prefixed names, a name means the left occurrence), None when no column matches."""
    fn = mir.find(r"table::.*::index_for_column_name$")
    from .mir_protocol import _confirm_query
    lens = {}
    it_models, what_of, coll = iter_models(ctx, lens, consistent=True)
    names = {}

    def m_name(ex, callee, args, pc, events):
        return [(pc, events, OpaqueV("name(%s)" % what_of(ex, args[0])))]

    def m_eq(ex, callee, args, pc, events):
        def w(a):
            v = ex.load(a)
            while isinstance(v, RefV):
                v = ex.load(v.target)
            return getattr(v, "what", repr(v))
        a, b = w(args[0]), w(args[1])
        key = a if a.startswith("name(") else b
        if key not in names:
            names[key] = ctx.fresh_bool("name_matches").term
        return [(pc, events + [("cmp", key, names[key])], BoolV(names[key]))]

    models = [(r"Column::name$", m_name), (r"as PartialEq(<.*>)?>::eq$", m_eq)] + it_models
    ex = M.Exec(mir, ctx, models=models, havoc_unknown=True)
    ex.max_revisit = 4
    from .mir_protocol import struct_fields
    tf = struct_fields(open(os.path.join(REPO, "src/internal/table.rs")).read(), "Table")
    if "columns" not in tf:
        raise EncodingError("struct Table has no field `columns`")
    ex.new_obj("table", [OpaqueV("table." + f) for f in tf])
    outs = ex.run(fn, [M.ObjV("table"), OpaqueV("wanted")])
    g = Group("column_lookup", ["table::Table::index_for_column_name (loop unrolled)"], confirm=_confirm_query,
              note="index_for_column_name(name) returns Some(i) exactly for the first column i whose name equals `name` (every earlier column was "
                   "compared and differs), and None exactly when every column was compared and none matches")
    n = 0
    for k, o in enumerate(outs):
        if o.kind != "return":
            continue
        n += 1
        v = o.value
        cmps = [e for e in o.events if e[0] == "cmp"]
        cols = [e[1] for e in o.events if e[0] == "elem" and re.fullmatch(r"table\.columns\[\d+\]", e[1])]
        ncols = o.heap.get("$lens", {}).get("table.columns")
        if isinstance(v, EnumV) and v.variant in (1, "Some"):
            idx = v.fields[0]
            want = len(cols) - 1
            if not (isinstance(idx, IntV) and idx.const == want) or len(cmps) != len(cols):
                g.queries.append(Query("index_%d" % k, o.pc, "unsat", note="returns %r after visiting %d columns and %d comparisons" % (idx, len(cols), len(cmps))))
            else:
                last = cmps[-1][2]
                earlier = [c[2] for c in cmps[:-1]]
                g.queries.append(Query("first_%d" % k, o.pc + ["(not (and %s %s))" % (last, " ".join("(not %s)" % t for t in earlier) if earlier else "true")], "unsat",
                                       note="the index returned is not that of the first column with the wanted name"))
        else:
            if ncols is None or len(cmps) != ncols:
                g.queries.append(Query("none_early_%d" % k, o.pc, "unsat", note="returns None without comparing every column (%d of %s)" % (len(cmps), ncols)))
            for c in cmps:
                g.queries.append(Query("none_%d_%d" % (k, len(g.queries)), o.pc + [c[2]], "unsat", note="returns None although a column has the wanted name"))
        g.witness.append(Query("w_%d" % k, o.pc, "sat"))
    if n < 3:
        raise EncodingError("column lookup: only %d returning paths" % n)
    return [g]


def c16_loaded_pool_group(mir, ctx):
    """StringPoolBuilder::build_from_data with its entry loop unrolled (<= 2 entries): the pool it
    returns is never marked modified -- the premise of C16's protocol law (a package that was only
    opened has clean flags), for the string-pool flag."""
    cands = [f for n, fs in mir.fns.items() for f in fs if n.endswith("::build_from_data")]
    if len(cands) != 1:
        raise EncodingError("build_from_data not found uniquely (%d)" % len(cands))
    from .mir_protocol import struct_fields, _confirm
    psrc = open(os.path.join(REPO, "src/internal/stringpool.rs")).read()
    pf = struct_fields(psrc, "StringPool")
    if "is_modified" not in pf:
        raise EncodingError("struct StringPool has no field is_modified")
    lens = {}
    it_models, what_of, coll = iter_models(ctx, lens, consistent=True)
    ex = M.Exec(mir, ctx, models=it_models, havoc_unknown=True, max_paths=200000)
    ex.max_revisit = 3
    ex.no_inline = [r"CodePage::", r"closure"]
    outs = ex.run(cands[0], [OpaqueV("builder"), OpaqueV("reader")])
    g = Group("loaded_pool_clean", ["stringpool::StringPoolBuilder::build_from_data (entry loop unrolled)"], confirm=_confirm,
              note="every pool returned by build_from_data (<= 2 entries read) has is_modified == false, whatever the file contains: opening a "
                   "package leaves nothing to save")
    n = 0
    for k, o in enumerate(outs):
        if o.kind != "return" or not (isinstance(o.value, EnumV) and o.value.variant in (0, "Ok")):
            continue
        n += 1
        pool = o.value.fields[0]
        flag = pool.fields[pf.index("is_modified")] if isinstance(pool, EnumV) and len(pool.fields) == len(pf) else None
        if isinstance(flag, BoolV):
            g.queries.append(Query("clean_%d" % k, o.pc + [flag.term], "unsat", note="a freshly loaded string pool can be marked modified (a read-only session would then rewrite it on flush)"))
        else:
            g.queries.append(Query("clean_unknown_%d" % k, o.pc, "unsat", note="the loaded pool's is_modified flag is %r" % (flag,)))
        g.witness.append(Query("w_%d" % k, o.pc, "sat"))
    if n < 2:
        raise EncodingError("build_from_data: only %d Ok paths" % n)
    return [g]


def c12_all(mir, ctx):
    return c12_join_group(mir, ctx) + c12_select_gate_group(mir, ctx) + c12_column_lookup_group(mir, ctx)


def c08_all(mir, ctx):
    from .mir_protocol import protocol_groups
    return protocol_groups(mir, ctx, {"drop_table"}) + c08_update_accounting_group(mir, ctx) + c08_delete_accounting_group(mir, ctx)


def _proto(which):
    def build(mir, ctx):
        from .mir_protocol import protocol_groups
        return protocol_groups(mir, ctx, which)
    return build


BUILDERS = {"C18": c18_groups, "C19": c19_groups, "C14": (lambda mir, ctx: c14_groups(mir, ctx) + c14_chunk_loop_group(mir, ctx)), "C20": c20_all, "C09": (lambda mir, ctx: c20_groups(mir, ctx) + c09_propvalue_read_group(mir, ctx)),
            "C01": _proto({"mutators", "finish", "close"}), "C10": (lambda mir, ctx: _proto({"mutators", "finish"})(mir, ctx) + c10_set_codepage_group(mir, ctx) + c10_size_law_group(mir, ctx)),
            "C15": (lambda mir, ctx: _proto({"finish", "close"})(mir, ctx) + c15_writers_flush_group(mir, ctx)), "C16": (lambda mir, ctx: _proto({"readonly"})(mir, ctx) + c16_loaded_pool_group(mir, ctx)), "C08": (lambda mir, ctx: c08_all(mir, ctx) + _proto({"finish"})(mir, ctx)), "C04": (lambda mir, ctx: _proto({"reject"})(mir, ctx) + c04_create_table_group(mir, ctx) + c05_update_group(mir, ctx) + c05_insert_group(mir, ctx)), "C11": c11_all, "C07": c07_insert_gate_group, "C12": c12_all, "C05": c05_all, "C13": c13_constructor_group, "C03": c03_all, "C06": c06_enum_gate_group, "C02": c02_propset_codepage_group}


def native_confirm_c18(vals, work):
    return None


TIER = {"extra": 0}      # thorough tier: the executor-level laws unroll one step further (3 rows / names instead of 2)


def deeper(n, groups=None):
    return n + TIER["extra"]


def load_enum_indices():
    """declaration index of every variant of every enum in /repo/src/internal (for discriminants of named variants)"""
    M.ENUM_INDEX_Q.clear()
    d = os.path.join(REPO, "src/internal")
    for fn_ in sorted(os.listdir(d)):
        if not fn_.endswith(".rs"):
            continue
        src = open(os.path.join(d, fn_)).read()
        for mm in re.finditer(r"enum (\w+) \{(.*?)\n\}", src, re.S):
            body = re.sub(r"//[^\n]*", "", mm.group(2))
            vs = re.findall(r"^\s*(\w+)\s*(?:\(.*\)|\{[^}]*\})?\s*(?:=\s*[^,]+)?,?\s*$", body, re.M)
            for i, v in enumerate(vs):
                M.ENUM_INDEX_Q["%s::%s" % (mm.group(1), v)] = i


def run_property(pid, tier, work, known_by_id, replay_dir):
    t0 = time.time()
    load_enum_indices()
    TIER["extra"] = 1 if tier == "thorough" else 0
    mir, mir_path = _load_mir(work)
    dump_s = time.time() - t0
    ctx = M.Ctx()
    groups = BUILDERS[pid](mir, ctx)
    allq = []
    for g in groups:
        for q in g.queries + g.witness:
            q.name = "%s.%s" % (g.name, q.name)
            allq.append(q)
    path, times = M.run_queries(ctx, allq, os.path.join(work, "smt"), pid)
    res = {"records": [], "lines": [], "problems": [], "violations": []}
    native = Native(pid, work)
    for g in groups:
        bad = []
        unknown = []
        single = []
        for q in g.queries:
            verdicts = set(q.result.values())
            definite = verdicts & {"sat", "unsat"}
            if len(definite) == 1 and len(verdicts) > 1:
                # one solver decided, the other gave up (unknown/timeout): accepted, recorded
                single.append(q.name)
                verdicts = definite
            if verdicts == {q.expect}:
                continue
            if len(definite) != 1 or len(verdicts) > 1:
                unknown.append(q)
            else:
                bad.append(q)
        wit_ok = all(set(w.result.values()) == {"sat"} for w in g.witness) if g.witness else True
        # at least one witness must be sat (the group reaches its assertions); individual path
        # combinations may be infeasible, which is fine
        wit_any = any(set(w.result.values()) == {"sat"} for w in g.witness) if g.witness else True
        rec = {
            "engine": "mir-smt", "query": "%s.%s" % (pid, g.name), "status": "PASS", "smt_queries": len(g.queries) + len(g.witness),
            "functions": g.functions, "note": g.note, "witness_ok": wit_any,
            "bounds": "full machine-integer ranges (mathematical integers + range side conditions); structural bound: the named functions with "
                      "loops unrolled as stated in the law's note" + (" -- THOROUGH tier: one unrolling step more than stated (e.g. 3 rows / names / characters "
                                                                      "where the note says 2; names of <= 4 characters for C11)" if TIER["extra"] else ""),
            "symbolic": "all integer inputs of the encoded functions",
            "solver_time_s": round(sum(times.values()), 2), "verification_time_s": round(sum(times.values()), 2),
            "solvers": sorted(times.keys()),
            "decided_by_one_solver_only": single,
        }
        if unknown:
            rec["status"] = "UNKNOWN"
            res["problems"].append("%s.%s: %d queries undecided or solvers disagree (%s)" % (
                pid, g.name, len(unknown), ", ".join("%s=%r" % (q.name, q.result) for q in unknown[:3])))
        elif not wit_any:
            rec["status"] = "VACUOUS"
            res["problems"].append("%s.%s: no reachability witness is satisfiable (vacuous encoding)" % (pid, g.name))
        elif bad:
            rec["status"] = "FAIL"
            os.makedirs(replay_dir, exist_ok=True)
            rp = os.path.join(replay_dir, "mir_%s.txt" % g.name)
            with open(rp, "w") as f:
                f.write("property: %s\nlaw: %s -- %s\nSMT script: (regenerate with ./check %s --keep) %s\n" % (pid, g.name, g.note, pid, path))
                for q in bad:
                    f.write("query %s expected %s got %r\n  note: %s\n  model: %s\n" % (q.name, q.expect, q.result, q.note, q.model))
            rec["counterexamples"] = [{"query": q.name, "model": q.model, "note": q.note} for q in bad[:5]]
            rec["replay"] = rp
            kf = None
            for k in known_by_id.values():
                if k.get("property") == pid and k.get("query") == g.name:
                    kf = k
            if kf and kf.get("match"):
                # a known finding covers only the counterexamples it names; anything else in the same law is a violation
                unmatched = [q for q in bad if not any(p_ in (q.note or "") for p_ in kf["match"])]
                if unmatched:
                    res["lines"].append("KNOWN-FINDING: property=%s %s [%s]" % (pid, kf["what"], kf["id"]))
                    bad = unmatched
                    kf = None
            reproduced, detail = None, "no native replay defined for this law"
            withmodel = [q for q in bad if q.model]
            if g.validation:
                rec["status"] = "ENCODING-ERROR"
                res["problems"].append("%s.%s: translator validation failed (%s) -- the encoding or the validated "
                                       "constants no longer match the code" % (pid, g.name, bad[0].name))
                res["records"].append(rec)
                continue
            if g.confirm and (withmodel or bad):
                # replay the counterexamples natively until one reproduces (distinct notes first)
                seen, tried = set(), 0
                for q0 in (withmodel or bad):
                    key = q0.note or q0.name
                    if key in seen or tried >= 40:
                        continue
                    seen.add(key)
                    tried += 1
                    try:
                        model = dict(q0.model or {})
                        for kv in re.findall(r"(\w+)=(\w+)", q0.note or ""):
                            model.setdefault(kv[0], kv[1])
                        reproduced, detail = g.confirm(model, native)
                    except Exception as e:  # noqa
                        reproduced, detail = None, "native replay failed to run: %r" % (e,)
                    with open(rp, "a") as f:
                        f.write("native replay of %s: reproduced=%s -- %s\n" % (q0.name, reproduced, detail))
                    if reproduced:
                        break
            with open(rp, "a") as f:
                f.write("native replay: reproduced=%s -- %s\n" % (reproduced, detail))
            rec["replay_reproduced"] = reproduced
            rec["replay_detail"] = detail
            if kf:
                rec["status"] = "KNOWN-FINDING"
                rec["known_finding"] = kf["id"]
                res["lines"].append("KNOWN-FINDING: property=%s %s [%s]" % (pid, kf["what"], kf["id"]))
            elif reproduced is False or (reproduced is None and g.confirm):
                rec["status"] = "NON-REPRODUCING"
                res["problems"].append("%s.%s: solver counterexample did not reproduce natively (%s)" % (pid, g.name, detail))
            else:
                res["violations"].append((g.name, rp, [q.name for q in bad]))
                res["lines"].append("VIOLATION property=%s replay=%s" % (pid, rp))
        res["records"].append(rec)
    res["records"].append({"engine": "mir-smt", "query": "%s.mir_dump" % pid, "status": "PASS", "smt_queries": 0,
                           "note": "MIR regenerated from %s in %.1fs (%s)" % (REPO, dump_s, os.path.basename(mir_path)),
                           "witness_ok": False, "functions": []})
    return res
