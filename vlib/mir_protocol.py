"""Engine M, part 3: the Package-level persistence PROTOCOL, decided on the MIR
of the real functions with the container (cfb) and the kernel writers replaced
by uninterpreted, possibly failing events.

One inductive step each: from an ARBITRARY pre-state of the dirty flags
(is_summary_info_modified, string_pool.is_modified symbolic; finisher None /
Some per instance) execute one of summary_info_mut, set_database_codepage,
insert/update/delete_rows, FinishImpl::finish, flush, into_inner, Drop::drop
symbolically, and decide (z3 + cvc5) laws over the post-state, the returned
Ok/Err and the ordered event list:

  * every mutating entry point arms the finisher and marks what it dirtied;
  * finish() rewrites the summary stream iff the summary is dirty and both pool
    streams iff the pool is dirty, each through a TRUNCATING create_stream,
    clears a flag only after the corresponding writes succeeded, writes nothing
    when nothing is dirty, and returns Ok only if every step it took returned Ok;
  * flush / into_inner run the finisher first and propagate its error; flush
    then flushes the container and returns that result; Drop runs the finisher.

This is the part of C01 / C10 / C15 that lives above the kernels and below cfb.
Every modelled call is listed in PROTOCOL_MODELS_DOC (trusted base).
"""
import os
import re

from . import mir as M
from .mir import (EncodingError, IntV, BoolV, EnumV, TupleV, RefV, StrV, OpaqueV, ObjV, LocV, Outcome, Query,
                  s_and, s_not)

REPO = os.environ.get("VERIF_REPO", "/repo")

PROTOCOL_MODELS_DOC = [
    "cfb::CompoundFile::{create_stream, open_stream, flush, into_inner}: uninterpreted events; each may return Ok or Err",
    "SummaryInfo::write, StringPool::write_pool, StringPool::write_data, Insert/Update/Delete::exec: uninterpreted events taking the stream / pool they are given; each may return Ok or Err",
    "Option::take / is_none / as_mut / as_ref / unwrap, Box::new, Result's Try::branch / FromResidual: their std semantics",
    "streamname::encode(name, true): an injective tag of the table name",
    "StringPool::{is_modified, mark_unmodified, set_codepage} and Package::{set_finisher, comp_mut}: NOT modelled -- their real MIR is inlined",
]


def struct_field_types(src, name):
    m = re.search(r"pub struct %s(?:<[^>]*>)? \{(.*?)\n\}" % name, src, re.S)
    if not m:
        raise EncodingError("struct %s not found" % name)
    body = re.sub(r"//[^\n]*", "", m.group(1))
    return dict(re.findall(r"^\s*(?:pub(?:\([^)]*\))? )?(\w+):\s*([^,\n]+),?\s*$", body, re.M))


def struct_fields(src, name):
    m = re.search(r"pub struct %s(?:<[^>]*>)? \{(.*?)\n\}" % name, src, re.S)
    if not m:
        raise EncodingError("struct %s not found" % name)
    body = re.sub(r"//[^\n]*", "", m.group(1))
    return re.findall(r"^\s*(?:pub(?:\([^)]*\))? )?(\w+):", body, re.M)


class Proto:
    def __init__(self, mir, ctx):
        self.mir = mir
        self.ctx = ctx
        pk = open(os.path.join(REPO, "src/internal/package.rs")).read()
        sp = open(os.path.join(REPO, "src/internal/stringpool.rs")).read()
        self.pf = struct_fields(pk, "Package")
        self.sf = struct_fields(sp, "StringPool")
        self.pft = struct_field_types(pk, "Package")
        self.sft = struct_field_types(sp, "StringPool")
        for need in ("comp", "summary_info", "is_summary_info_modified", "string_pool", "finisher"):
            if need not in self.pf:
                raise EncodingError("Package has no field %s (protocol model out of date)" % need)
        if "is_modified" not in self.sf:
            raise EncodingError("StringPool has no field is_modified")
        self.nstream = 0

    # -- state ----------------------------------------------------------
    def fresh_state(self, ex, finisher_some, tag):
        s = self.ctx.fresh_bool("summary_dirty_" + tag)
        p = self.ctx.fresh_bool("pool_dirty_" + tag)
        # any OTHER boolean field of the two structs is part of the arbitrary pre-state too (a second dirty flag, a
        # cache-valid bit, ...): one fresh boolean each
        pool = [BoolV(self.ctx.fresh_bool("pool_%s_%s" % (f, tag)).term) if self.sft.get(f, "").strip() == "bool" else OpaqueV("pool." + f) for f in self.sf]
        pool[self.sf.index("is_modified")] = BoolV(p.term)
        ex.new_obj("pool", pool)
        pkg = [BoolV(self.ctx.fresh_bool("pkg_%s_%s" % (f, tag)).term) if self.pft.get(f, "").strip() == "bool" else OpaqueV("pkg." + f) for f in self.pf]
        pkg[self.pf.index("comp")] = EnumV(variant=1, fields=[OpaqueV("comp")])
        pkg[self.pf.index("summary_info")] = OpaqueV("summary")
        pkg[self.pf.index("is_summary_info_modified")] = BoolV(s.term)
        pkg[self.pf.index("string_pool")] = ObjV("pool")
        fin = EnumV(variant=1, fields=[TupleV([TupleV([OpaqueV("finishimpl")]), OpaqueV("alloc")])]) if finisher_some \
            else EnumV(variant=0, fields=[])
        pkg[self.pf.index("finisher")] = fin
        ex.new_obj("pkg", pkg)
        return s, p

    def flag(self, heap, which):
        if which == "summary":
            return heap["pkg"][self.pf.index("is_summary_info_modified")]
        if which == "pool":
            return heap["pool"][self.sf.index("is_modified")]
        raise KeyError(which)

    def finisher_is_some(self, heap):
        v = heap["pkg"][self.pf.index("finisher")]
        return isinstance(v, EnumV) and v.variant in (1, "Some")

    # -- models -----------------------------------------------------------
    def models(self):
        P = self

        def ok(v):
            return EnumV(variant=0, fields=[v])

        def err(tag):
            return EnumV(variant=1, fields=[OpaqueV("io::Error@" + tag)])

        def fallible(name, payload):
            def m(ex, callee, args, pc, events):
                a = [ex.load(x) for x in args]
                desc = []
                for x in a[1:] if name in ("create_stream", "open_stream", "remove_stream") else a:
                    if isinstance(x, StrV):
                        desc.append(x.s)
                    elif isinstance(x, OpaqueV):
                        desc.append(x.what)
                    elif isinstance(x, ObjV):
                        desc.append("obj:" + str(x.oid))
                    else:
                        desc.append(type(x).__name__)
                if payload == "stream":
                    P.nstream += 1
                    sid = "stream#%d:%s:%s" % (P.nstream, name, desc[0] if desc else "?")
                    okv = ok(OpaqueV(sid))
                else:
                    okv = ok(TupleV([]))
                ev = (name,) + tuple(desc)
                return [(pc, events + [ev + ("Ok",)], okv), (pc, events + [ev + ("Err",)], err(name))]
            return m

        def m_take(ex, callee, args, pc, events):
            loc = args[0]
            if isinstance(loc, RefV) and isinstance(loc.target, LocV):
                loc = loc.target
            if not isinstance(loc, LocV):
                raise EncodingError("Option::take on %r" % (loc,))
            v = ex.heap[loc.oid][loc.k]
            ex.heap[loc.oid][loc.k] = EnumV(variant=0, fields=[])
            return [(pc, events, v)]

        def m_is_none(ex, callee, args, pc, events):
            v = ex.load(args[0])
            return [(pc, events, M.mk_bool(isinstance(v, EnumV) and v.variant in (0, "None")))]

        def m_as_mut(ex, callee, args, pc, events):
            v = ex.load(args[0])
            if isinstance(v, EnumV) and v.variant in (1, "Some"):
                return [(pc, events, EnumV(variant=1, fields=[RefV(v.fields[0])]))]
            return [(pc, events, EnumV(variant=0, fields=[]))]

        def m_unwrap(ex, callee, args, pc, events):
            v = ex.load(args[0])
            if isinstance(v, EnumV) and v.variant in (1, "Some"):
                return [(pc, events, v.fields[0])]
            return [(pc, events, Outcome("panic", pc, msg="unwrap on None in " + callee, events=events))]

        def m_box_new(ex, callee, args, pc, events):
            return [(pc, events, TupleV([TupleV([OpaqueV("finishimpl")]), OpaqueV("alloc")]))]

        def m_branch(ex, callee, args, pc, events):
            r = ex.load(args[0])
            if r.variant in (0, "Ok"):
                return [(pc, events, EnumV(variant=0, fields=[r.fields[0] if r.fields else TupleV([])]))]
            return [(pc, events, EnumV(variant=1, fields=[r]))]

        def m_result_closure(ex, callee, args, pc, events):
            """Result::and_then / map / or_else / map_err with a closure: the closure's MIR is run on the payload"""
            which = re.search(r"Result::<.*>::(and_then|map|or_else|map_err)::<", callee).group(1)
            r = ex.load(args[0])
            if not isinstance(r, EnumV):
                raise EncodingError("Result::%s on %r" % (which, r))
            is_ok = r.variant in (0, "Ok")
            if (which in ("and_then", "map")) != is_ok:
                return [(pc, events, r)]                      # passes through untouched
            mm = re.search(r"\{closure@([^}]*)\}", callee)
            tg = [f for n, fs in P.mir.fns.items() for f in fs if f.args and mm and ("{closure@%s}" % mm.group(1)) in f.args[0][1]]
            if len(tg) != 1:
                raise EncodingError("closure of Result::%s not found (%s)" % (which, callee[-80:]))
            payload = r.fields[0] if r.fields else TupleV([])
            res = []
            for o in ex.run(tg[0], [ex.load(args[1]), payload] if len(tg[0].args) == 2 else [ex.load(args[1])], pc, events, 3):
                if o.kind == "return":
                    v = o.value
                    if which == "map":
                        v = EnumV(variant=0, fields=[v])
                    elif which == "map_err":
                        v = EnumV(variant=1, fields=[v])
                    res.append((o.pc, o.events, v, o.heap))
                elif o.kind == "panic":
                    res.append((o.pc, o.events, o, o.heap))
            return res

        def m_result_is(ex, callee, args, pc, events):
            r = ex.load(args[0])
            while isinstance(r, RefV):
                r = ex.load(r.target)
            if not isinstance(r, EnumV):
                raise EncodingError("Result::is_ok/is_err on %r" % (r,))
            ok = r.variant in (0, "Ok")
            want_ok = callee.endswith("is_ok")
            return [(pc, events, BoolV("true" if ok == want_ok else "false", ok == want_ok))]

        def m_result_and_or(ex, callee, args, pc, events):
            a, b = ex.load(args[0]), ex.load(args[1])
            is_and = "::and::<" in callee
            if not isinstance(a, EnumV):
                raise EncodingError("Result::and/or on %r" % (a,))
            a_ok = a.variant in (0, "Ok")
            if is_and:
                return [(pc, events, b if a_ok else a)]
            return [(pc, events, a if a_ok else b)]

        def m_from_residual(ex, callee, args, pc, events):
            return [(pc, events, EnumV(variant=1, fields=[OpaqueV("io::Error")]))]

        def m_encode(ex, callee, args, pc, events):
            n = ex.load(args[0])
            return [(pc, events, StrV("table:" + (n.s if isinstance(n, StrV) else repr(n))))]

        def m_into(ex, callee, args, pc, events):
            return [(pc, events, args[0])]

        def m_comp_into_inner(ex, callee, args, pc, events):
            return [(pc, events + [("comp_into_inner",)], OpaqueV("medium"))]

        def m_dyn_finish(ex, callee, args, pc, events):
            target = P.mir.find(r"package::.*::finish$")
            res = []
            for o in ex.run(target, args, pc, events + [("finish-begin",)], 2):
                if o.kind == "return":
                    res.append((o.pc, o.events + [("finish-end", "Ok" if o.value.variant in (0, "Ok") else "Err")], o.value, o.heap))
                elif o.kind == "panic":
                    res.append((o.pc, o.events, o, o.heap))
            return res

        def m_is_valid(ex, callee, args, pc, events):
            b = P.ctx.fresh_bool("name_valid")
            tbl = ex.load(args[1]) if len(args) > 1 else None
            return [(pc, events + [("is_valid", b.term, getattr(tbl, "const", None))], BoolV(b.term))]

        def m_encode2(ex, callee, args, pc, events):
            n = ex.load(args[0])
            tbl = ex.load(args[1]) if len(args) > 1 else None
            tag = n.s if isinstance(n, StrV) else getattr(n, "what", repr(n))
            return [(pc, events, StrV("enc(%s,%s)" % (tag, getattr(tbl, "const", "?"))))]

        def m_query_bool(ex, callee, args, pc, events):
            # CompoundFile::is_stream / exists: an arbitrary answer
            meth = re.sub(r"::<.*$", "", callee).split("::")[-1]
            b = P.ctx.fresh_bool("cfb_" + meth)
            nm = ex.load(args[1]) if len(args) > 1 else None
            return [(pc, events + [("query:" + meth, nm.s if isinstance(nm, StrV) else repr(nm))], BoolV(b.term))]

        return [
            (r"CompoundFile::<F>::(is_stream|exists|is_storage)(::<.*>)?$", m_query_bool),
            (r"CompoundFile::<F>::remove_stream::<", fallible("remove_stream", "unit")),
            (r"^is_reserved_table_name$", lambda ex, callee, args, pc, events: [(pc, events, BoolV(P.ctx.fresh_bool("reserved_name").term))]),
            (r"Table::is_valid_name$", lambda ex, callee, args, pc, events: [(pc, events, BoolV(P.ctx.fresh_bool("valid_name").term))]),
            (r"BTreeMap::<String, Rc<Table>>::contains_key::<", lambda ex, callee, args, pc, events: [(pc, events, BoolV(P.ctx.fresh_bool("table_exists").term))]),
            (r"BTreeMap::<String, Rc<Table>>::get::<", lambda ex, callee, args, pc, events: [(pc, events, EnumV(variant=1, fields=[OpaqueV("rc-table")]))]),
            (r"BTreeMap::<String, Rc<Table>>::remove::<", lambda ex, callee, args, pc, events: [(pc, events + [("tables_remove",)], OpaqueV("removed"))]),
            (r"<Rc<Table> as Deref>::deref$", lambda ex, callee, args, pc, events: [(pc, events, OpaqueV("table"))]),
            (r"Table::stream_name$", lambda ex, callee, args, pc, events: [(pc, events, StrV("stream-of-dropped-table"))]),
            (r"Delete::from::<", lambda ex, callee, args, pc, events: [(pc, events, OpaqueV("Delete(from=%s)" % (lambda v: v.s if isinstance(v, StrV) else getattr(v, "what", repr(v)))(ex.load(args[0]))))]),
            (r"Delete::with$", lambda ex, callee, args, pc, events: [(pc, events, args[0])]),
            (r"Expr::(col|string|eq|integer)(::<.*>)?$", lambda ex, callee, args, pc, events: [(pc, events, OpaqueV("expr"))]),
            (r"CompoundFile::<F>::create_stream::<", fallible("create_stream", "stream")),
            (r"CompoundFile::<F>::open_stream::<", fallible("open_stream", "stream")),
            (r"CompoundFile::<F>::flush$", fallible("comp_flush", "unit")),
            (r"CompoundFile::<F>::into_inner$", m_comp_into_inner),
            (r"SummaryInfo::write::<", fallible("write_summary", "unit")),
            (r"StringPool::write_pool::<", fallible("write_pool", "unit")),
            (r"StringPool::write_data::<", fallible("write_data", "unit")),
            (r"(Insert|Update|Delete)::exec::<F>$", fallible("exec", "unit")),
            (r"Select::exec::<F>$", fallible("exec_select", "unit")),
            (r"^is_valid$|streamname::is_valid$", m_is_valid),
            (r"Option::<.*>::take$", m_take),
            (r"Option::<.*>::is_none$", m_is_none),
            (r"Option::<.*>::as_(mut|ref)$", m_as_mut),
            (r"Option::<.*>::unwrap$", m_unwrap),
            (r"Box::<FinishImpl>::new$", m_box_new),
            (r"Result::<.*>::(and_then|map|or_else|map_err)::<", m_result_closure), (r"Result::<.*>::and::<|Result::<.*>::or::<", m_result_and_or),
            (r"Result::<.*>::is_(ok|err)$", m_result_is),
            (r"as Try>::branch$", m_branch),
            (r"as FromResidual<.*>>::from_residual$", m_from_residual),
            (r"^encode$|streamname::encode$", m_encode2),
            (r"as Into<String>>::into$", m_into),
            (r"<dyn Finish<F> as Finish<F>>::finish$", m_dyn_finish),
            (r"<FinishImpl as Finish<F>>::finish$", m_dyn_finish),     # the finisher invoked directly, not through the armed Box<dyn Finish>
        ]

    def run(self, fn_rx, finisher_some, tag, extra_args=0, by_value=False, havoc=False):
        ex = M.Exec(self.mir, self.ctx, models=self.models(), havoc_unknown=havoc)
        if havoc:
            ex.max_revisit = 3      # helper loops introduced into an entry point (e.g. a compaction pass) are unrolled, not refused
        s, p = self.fresh_state(ex, finisher_some, tag)
        fn = self.mir.find(fn_rx)
        if by_value:
            args = [ObjV("pkg")]
        else:
            args = [RefV(ObjV("pkg"))]
        if fn_rx.endswith("::finish$"):
            args = [RefV(OpaqueV("finishimpl"))] + args
        args += [OpaqueV("arg%d" % i) for i in range(extra_args)]
        outs = ex.run(fn, args)
        outs = outs + ex._pending_panics
        ex._pending_panics = []
        return s, p, outs


def _is_ok(v):
    return isinstance(v, EnumV) and v.variant in (0, "Ok")


QUERY_SCENARIOS = ("join", "join_names", "select_names")
KEY_SCENARIOS = ("keys",)
REL_SCENARIOS = ("relational",)
CREATE_SCENARIOS = ("create_rejected",)


def _confirm_rowlimit(model, native):
    """Native replay for the write-side row limit (C20): its own test, it inserts 65,537 rows"""
    out = native("native::protocol::replay_row_limit", {})
    if not out.get("_ran"):
        return None, "native replay did not run"
    if out.get("_panicked"):
        return True, "native row-limit replay panicked: %s" % out.get("_panic_msg")
    return (out.get("differs") == 1), (out.get("witness") or "a table filled to the limit refuses one more row and still reopens")


def _confirm_create(model, native):
    """Native replay for create_table's catalog gate (C04)."""
    return _confirm(model, native, only=CREATE_SCENARIOS)


def _confirm_relational(model, native):
    """Native replay for the relational kernels (C03)."""
    return _confirm(model, native, only=REL_SCENARIOS)


def _confirm_keys(model, native):
    """Native replay for the key-invariant laws (C05)."""
    return _confirm(model, native, only=KEY_SCENARIOS)


def _confirm_query(model, native):
    """Native replay for the query-tree laws (C12): only the join / select scenarios count."""
    return _confirm(model, native, only=QUERY_SCENARIOS)


def _confirm(model, native, only=None):
    """Native replay: the public-API protocol scenarios (kani/src/native/protocol.rs)."""
    out = native("native::protocol::replay_protocol", {})
    if not out.get("_ran"):
        return None, "native protocol scenarios did not run"
    out = {k: v for k, v in out.items() if k.startswith("_") or ((k in only) if only else (k not in QUERY_SCENARIOS + KEY_SCENARIOS + REL_SCENARIOS + CREATE_SCENARIOS))}
    failed = {k: v for k, v in out.items() if isinstance(v, str) and v.startswith("FAILED")}
    if out.get("_panicked") and not only:
        return True, "a native protocol scenario panicked: %s" % out.get("_panic_msg")
    if failed:
        k = sorted(failed)[0]
        return True, "public-API scenario %s: %s" % (k, failed[k][:300])
    return False, "all %d public-API protocol scenarios pass natively" % len([k for k in out if not k.startswith("_")])


def _confirm_drop_table(model, native):
    out = native("native::c01::replay_c08_drop_table_strings", {})
    if not out.get("_ran"):
        return None, "native replay did not run"
    if out.get("_panicked"):
        return True, "native drop_table scenario panicked: %s" % out.get("_panic_msg")
    return (out.get("leftover") == 1), ("text of a dropped table's rows is still in the saved _StringData" if out.get("leftover") == 1
                                         else "no text of the dropped table is left in the saved file")


def protocol_groups(mir, ctx, which):
    """which: set of law-group names to build."""
    from .mir_engine import Group
    P = Proto(mir, ctx)
    groups = []
    fns_mut = ["package::Package::summary_info_mut", "package::Package::set_database_codepage", "package::Package::set_finisher",
               "package::Package::insert_rows", "package::Package::update_rows", "package::Package::delete_rows",
               "stringpool::StringPool::set_codepage"]
    fns_fin = ["package::FinishImpl::finish", "stringpool::StringPool::is_modified", "stringpool::StringPool::mark_unmodified"]
    fns_close = ["package::Package::flush", "package::Package::into_inner", "package::<Package as Drop>::drop", "package::FinishImpl::finish"]

    def q(g, name, pc, note, get=None):
        g.queries.append(Query("%s_%d" % (name, len(g.queries)), pc, "unsat", get=get or {}, note=note))

    def must_be_true(g, name, o, v, note, get):
        if isinstance(v, BoolV):
            if v.const is True:
                return
            q(g, name, o.pc + [s_not(v.term)], note, get)
        else:
            q(g, name, o.pc, note + " (flag is %r)" % (v,), get)

    # ---------------------------------------------------------------- mutators
    if "mutators" in which:
        g = Group("protocol_mutators_mark_dirty", fns_mut, confirm=_confirm,
                  note="from any pre-state of the dirty flags and with the finisher unset or set: summary_info_mut marks the summary "
                       "dirty and arms the finisher; set_database_codepage marks the pool dirty and arms the finisher; "
                       "insert/update/delete_rows arm the finisher before running the executor")
        cases = [("summary_info_mut", r"package::.*::summary_info_mut$", 0, ["summary"]),
                 ("set_database_codepage", r"package::.*::set_database_codepage$", 1, ["pool"]),
                 ("insert_rows", r"package::.*::insert_rows$", 1, []),
                 ("update_rows", r"package::.*::update_rows$", 1, []),
                 ("delete_rows", r"package::.*::delete_rows$", 1, [])]
        for name, rx, extra, dirty in cases:
            for fin in (False, True):
                tag = "%s_%s" % (name, "armed" if fin else "unarmed")
                s, p, outs = P.run(rx, fin, tag, extra_args=extra)
                get = {"summary_dirty_before": s.term, "pool_dirty_before": p.term}
                nret = 0
                for o in outs:
                    if o.kind == "panic":
                        q(g, "panic_" + tag, o.pc, "panic in %s: %s" % (name, o.msg), get)
                        continue
                    if o.kind != "return":
                        continue
                    nret += 1
                    if not P.finisher_is_some(o.heap):
                        q(g, "unarmed_" + tag, o.pc, "%s returns without the finisher armed (changes would not be saved on flush / close)" % name, get)
                    for d in dirty:
                        must_be_true(g, "notdirty_" + tag, o, P.flag(o.heap, d), "%s does not mark the %s dirty on every path" % (name, d), get)
                    if name.endswith("_rows"):
                        evs = [e[0] for e in o.events]
                        if "exec" not in evs:
                            q(g, "noexec_" + tag, o.pc, "%s returns without running the executor" % name, get)
                        execev = [e for e in o.events if e[0] == "exec"]
                        if execev and (execev[0][-1] == "Ok") != _is_ok(o.value):
                            q(g, "result_" + tag, o.pc, "%s does not return the executor's result" % name, get)
                    g.witness.append(Query("w_%s_%d" % (tag, len(g.witness)), o.pc, "sat"))
                if nret == 0:
                    raise EncodingError("protocol: no return path through %s" % name)
        groups.append(g)

    # ---------------------------------------------------------------- finish
    if "finish" in which:
        g = Group("protocol_finish", fns_fin, confirm=_confirm,
                  note="FinishImpl::finish from any pre-state of the two dirty flags: rewrites the summary stream iff the summary is "
                       "dirty and both pool streams iff the pool is dirty, always through a truncating create_stream and into the "
                       "stream just created; clears a flag only after its writes succeeded; returns Ok iff every step returned Ok")
        s, p, outs = P.run(r"package::.*::finish$", False, "finish")
        get = {"summary_dirty_before": s.term, "pool_dirty_before": p.term}
        nret = 0
        for o in outs:
            if o.kind == "panic":
                q(g, "panic", o.pc, "panic in finish: %s" % o.msg, get)
                continue
            if o.kind != "return":
                continue
            nret += 1
            evs = o.events
            names = [e[0] for e in evs]
            allok = all(e[-1] == "Ok" for e in evs if e[-1] in ("Ok", "Err"))
            if _is_ok(o.value) != allok:
                q(g, "result", o.pc, "finish returns %s although its steps were %s" % ("Ok" if _is_ok(o.value) else "Err", [e[-1] for e in evs]), get)
            if "open_stream" in names:
                q(g, "open_stream", o.pc, "finish writes into a stream obtained with open_stream: the old contents are not truncated, "
                                             "stale bytes survive when the new image is shorter", get)
            # summary part
            cs_sum = [e for e in evs if e[0] == "create_stream" and "SummaryInformation" in e[1]]
            ws = [e for e in evs if e[0] == "write_summary"]
            wrote_summary = bool(cs_sum) and bool(ws) and cs_sum[0][-1] == "Ok" and ws[0][-1] == "Ok" and ("SummaryInformation" in ws[0][2] if len(ws[0]) > 3 else True)
            tried_summary = bool(cs_sum)
            # pool part
            cs_pool = [e for e in evs if e[0] == "create_stream" and "_StringPool" in e[1]]
            cs_data = [e for e in evs if e[0] == "create_stream" and "_StringData" in e[1]]
            wp = [e for e in evs if e[0] == "write_pool"]
            wd = [e for e in evs if e[0] == "write_data"]
            wrote_pool = all(x and x[0][-1] == "Ok" for x in (cs_pool, wp, cs_data, wd))
            tried_pool = bool(cs_pool) or bool(cs_data) or bool(wp) or bool(wd)
            if wp and cs_pool and not any("_StringPool" in str(x) for x in wp[0]):
                q(g, "pool_target", o.pc, "write_pool is not given the stream created for _StringPool", get)
            if wd and cs_data and not any("_StringData" in str(x) for x in wd[0]):
                q(g, "data_target", o.pc, "write_data is not given the stream created for _StringData", get)
            if ws and cs_sum and not any("SummaryInformation" in str(x) for x in ws[0]):
                q(g, "summary_target", o.pc, "SummaryInfo::write is not given the stream created for the summary information", get)
            sflag, pflag = P.flag(o.heap, "summary"), P.flag(o.heap, "pool")
            if _is_ok(o.value):
                # success: everything dirty was written, and is clean now
                if not wrote_summary:
                    q(g, "summary_skipped", o.pc + [s.term], "finish returned Ok with the summary dirty but not (completely) written", get)
                if not wrote_pool:
                    q(g, "pool_skipped", o.pc + [p.term], "finish returned Ok with the string pool dirty but not (completely) written", get)
                if isinstance(sflag, BoolV) and sflag.const is not False:
                    q(g, "summary_still_dirty", o.pc + [sflag.term], "finish returned Ok but the summary is still marked dirty", get)
                if isinstance(pflag, BoolV) and pflag.const is not False:
                    q(g, "pool_still_dirty", o.pc + [pflag.term], "finish returned Ok but the string pool is still marked dirty", get)
            else:
                # failure: whatever was not completely written must still be dirty (a retry or a later flush must redo it)
                if not wrote_summary and isinstance(sflag, BoolV):
                    q(g, "summary_flag_lost", o.pc + [s.term, s_not(sflag.term)], "finish failed before the summary was written, yet cleared its dirty flag", get)
                if not wrote_pool and isinstance(pflag, BoolV):
                    q(g, "pool_flag_lost", o.pc + [p.term, s_not(pflag.term)], "finish failed before the pool was written, yet cleared its dirty flag", get)
            # nothing is written for what is clean
            if tried_summary:
                q(g, "summary_clean_written", o.pc + [s_not(s.term)], "finish rewrites the summary stream although the summary is not dirty", get)
            if tried_pool:
                q(g, "pool_clean_written", o.pc + [s_not(p.term)], "finish rewrites the pool streams although the pool is not dirty", get)
            g.witness.append(Query("w_finish_%d" % len(g.witness), o.pc, "sat"))
        if nret < 4:
            raise EncodingError("protocol: finish has only %d return paths (expected the dirty/clean and Ok/Err combinations)" % nret)
        groups.append(g)

    # ---------------------------------------------------------------- close
    if "close" in which:
        g = Group("protocol_close", fns_close, confirm=_confirm,
                  note="flush: runs the finisher if armed, propagates its error, then flushes the container and returns that result; "
                       "into_inner: runs the finisher if armed and propagates its error before releasing the medium; Drop: runs the finisher if armed")
        for name, rx, byval in (("flush", r"package::.*::flush$", False), ("into_inner", r"package::.*::into_inner$", True),
                                ("drop", r"package::<impl at [^>]*>::drop$", False)):
            for fin in (False, True):
                tag = "%s_%s" % (name, "armed" if fin else "unarmed")
                s, p, outs = P.run(rx, fin, tag, by_value=byval)
                get = {"summary_dirty_before": s.term, "pool_dirty_before": p.term}
                nret = 0
                for o in outs:
                    if o.kind == "panic":
                        q(g, "panic_" + tag, o.pc, "panic in %s: %s" % (name, o.msg), get)
                        continue
                    if o.kind != "return":
                        continue
                    nret += 1
                    evs = o.events
                    names = [e[0] for e in evs]
                    fin_end = [e for e in evs if e[0] == "finish-end"]
                    if fin and not fin_end:
                        q(g, "nofinish_" + tag, o.pc, "%s returns without running the armed finisher (dirty data is not saved)" % name, get)
                    if not fin and fin_end:
                        q(g, "finish_unarmed_" + tag, o.pc, "%s runs the finisher although none is armed" % name, get)
                    if name == "flush":
                        if fin_end and fin_end[0][1] == "Err":
                            if _is_ok(o.value):
                                q(g, "flush_swallows_" + tag, o.pc, "flush returns Ok although the finisher failed", get)
                        else:
                            cf = [e for e in evs if e[0] == "comp_flush"]
                            if not cf:
                                q(g, "flush_nocompflush_" + tag, o.pc, "flush returns without flushing the container", get)
                            elif (cf[0][-1] == "Ok") != _is_ok(o.value):
                                q(g, "flush_result_" + tag, o.pc, "flush does not return the container's flush result", get)
                            if fin_end and names.index("comp_flush") < names.index("finish-end") if cf else False:
                                q(g, "flush_order_" + tag, o.pc, "flush flushes the container before running the finisher", get)
                    if name == "into_inner":
                        if fin_end and fin_end[0][1] == "Err" and _is_ok(o.value):
                            q(g, "into_inner_swallows_" + tag, o.pc, "into_inner returns Ok although the finisher failed", get)
                        if _is_ok(o.value) and "comp_into_inner" not in names:
                            q(g, "into_inner_nomedium_" + tag, o.pc, "into_inner returns Ok without releasing the medium", get)
                        if "comp_into_inner" in names and fin_end and names.index("comp_into_inner") < names.index("finish-end"):
                            q(g, "into_inner_order_" + tag, o.pc, "into_inner releases the medium before running the finisher", get)
                    g.witness.append(Query("w_%s_%d" % (tag, len(g.witness)), o.pc, "sat"))
                if nret == 0:
                    raise EncodingError("protocol: no return path through %s" % name)
        groups.append(g)
    # ---------------------------------------------------------------- drop_table (C08)
    if "drop_table" in which:
        g = Group("protocol_drop_table", ["package::Package::drop_table", "package::Package::delete_rows"], confirm=_confirm_drop_table,
                  note="drop_table: an argument error (reserved / invalid / unknown name) is returned before any mutation; a successful "
                       "drop first releases the rows of the dropped table (a Delete on that table, so that their strings leave the pool), "
                       "removes the table stream and deletes the table's rows from the three catalogue tables")
        for fin in (False, True):
            tag = "drop_table_%s" % ("armed" if fin else "unarmed")
            s, p, outs = P.run(r"package::.*::drop_table$", fin, tag, extra_args=1, havoc=True)
            get = {"summary_dirty_before": s.term, "pool_dirty_before": p.term}
            nok = 0
            for o in outs:
                if o.kind == "panic":
                    continue
                if o.kind != "return":
                    continue
                evs = o.events
                names = [e[0] for e in evs]
                failing = [e for e in evs if e[-1] == "Err"]
                mutating = [e for e in evs if e[0] in ("remove_stream", "exec", "tables_remove", "create_stream")]
                if not _is_ok(o.value) and not failing and mutating:
                    q(g, "mutates_before_error_" + tag, o.pc, "drop_table returns an argument error after it already ran %r" % (mutating[0][:2],), get)
                if _is_ok(o.value):
                    nok += 1
                    own = [i for i, e in enumerate(evs) if e[0] == "exec" and any("Delete(from=arg0" in str(x) for x in e)]
                    rs = [i for i, e in enumerate(evs) if e[0] == "remove_stream"]
                    if not own:
                        q(g, "rows_not_released_" + tag, o.pc, "drop_table succeeds without deleting the dropped table's own rows: the strings they "
                                                                "reference stay counted in the pool and their text stays in the saved file", get)
                    elif rs and own[0] > rs[0]:
                        q(g, "rows_released_late_" + tag, o.pc, "drop_table removes the table stream before releasing its rows", get)
                    for cat in ("_Validation", "_Columns", "_Tables"):
                        if not any(e[0] == "exec" and any("Delete(from=%s" % cat in str(x) for x in e) for e in evs):
                            q(g, "catalog_" + tag, o.pc, "drop_table succeeds without deleting the table's rows from %s" % cat, get)
                    if "tables_remove" not in names:
                        q(g, "registry_" + tag, o.pc, "drop_table succeeds without removing the table from the in-memory table list", get)
                g.witness.append(Query("w_%s_%d" % (tag, len(g.witness)), o.pc, "sat"))
            if nok == 0:
                raise EncodingError("protocol: drop_table has no successful path")
        groups.append(g)

    # ---------------------------------------------------------------- rejected calls change nothing (C04, partial)
    if "reject" in which:
        g = Group("protocol_reject_before_mutate", ["package::Package::read_stream", "package::Package::write_stream",
                                                    "package::Package::remove_stream", "package::Package::drop_table"], confirm=_confirm,
                  note="stream calls and drop_table: the name is validated (as a stream name, not a table name) before the container is "
                       "touched; an argument error (invalid / unknown name) is returned without any creating or removing container call "
                       "and without arming the finisher or changing a dirty flag; the container is always addressed by the encoding of the "
                       "name that was validated")
        for name, rx in (("read_stream", r"package::.*::read_stream$"), ("write_stream", r"package::.*::write_stream$"),
                         ("remove_stream", r"package::.*::remove_stream$"), ("drop_table", r"package::.*::drop_table$")):
            for fin in (False, True):
                tag = "%s_%s" % (name, "armed" if fin else "unarmed")
                s, p, outs = P.run(rx, fin, tag, extra_args=1, havoc=True)
                get = {"summary_dirty_before": s.term, "pool_dirty_before": p.term}
                nret = 0
                for o in outs:
                    if o.kind != "return":
                        continue
                    nret += 1
                    evs = o.events
                    failing = [e for e in evs if e[-1] == "Err"]
                    mutating = [e for e in evs if e[0] in ("remove_stream", "create_stream", "exec", "tables_remove")]
                    container = [i for i, e in enumerate(evs) if e[0] in ("remove_stream", "create_stream", "open_stream") or e[0].startswith("query:")]
                    valid = [i for i, e in enumerate(evs) if e[0] == "is_valid"]
                    if not _is_ok(o.value) and not failing:
                        # an argument error
                        if mutating:
                            q(g, "mutated_" + tag, o.pc, "%s returns an argument error after %r" % (name, mutating[0][:2]), get)
                        if P.finisher_is_some(o.heap) != fin and name != "drop_table":
                            q(g, "armed_" + tag, o.pc, "%s arms the finisher although it fails with an argument error" % name, get)
                    if name != "drop_table":
                        if container and (not valid or valid[0] > container[0]):
                            q(g, "unvalidated_" + tag, o.pc, "%s touches the container before validating the stream name" % name, get)
                        if valid and evs[valid[0]][2] is not False:
                            q(g, "validated_as_table_" + tag, o.pc, "%s validates the name as a TABLE name (streams and tables are encoded differently)" % name, get)
                        if valid and container:
                            # the invalid-name branch must not reach the container
                            q(g, "invalid_reaches_" + tag, o.pc + [s_not(evs[valid[0]][1])], "%s touches the container although the name is invalid" % name, get)
                        encs = set(str(x) for e in evs if e[0] in ("remove_stream", "create_stream", "open_stream") or e[0].startswith("query:")
                                   for x in e[1:2] if str(x).startswith("enc("))
                        if len(encs) > 1 or any(",True)" in x for x in encs):
                            q(g, "encoding_" + tag, o.pc, "%s addresses the container by different / table-style encodings of the name: %s" % (name, sorted(encs)), get)
                    g.witness.append(Query("w_%s_%d" % (tag, len(g.witness)), o.pc, "sat"))
                if nret == 0:
                    raise EncodingError("protocol: no return path through %s" % name)
        groups.append(g)

    # ---------------------------------------------------------------- read-only entry points (C16)
    if "readonly" in which:
        g = Group("protocol_readonly", ["package::Package::select_rows", "package::Package::read_stream", "package::Package::flush",
                                         "package::Package::into_inner", "package::<Package as Drop>::drop"], confirm=_confirm,
                  note="the &mut-self READ entry points (select_rows, read_stream) never arm the finisher, never change a dirty flag and "
                       "issue no creating/removing/writing container call; closing a package whose finisher is not armed (flush, "
                       "into_inner, Drop) runs no finisher and issues no creating/removing/writing container call")
        MUTATING = ("create_stream", "write_summary", "write_pool", "write_data", "exec_mut")
        for name, rx, extra in (("select_rows", r"package::.*::select_rows$", 1), ("read_stream", r"package::.*::read_stream$", 1)):
            for fin in (False, True):
                tag = "%s_%s" % (name, "armed" if fin else "unarmed")
                s, p, outs = P.run(rx, fin, tag, extra_args=extra, havoc=True)
                get = {"summary_dirty_before": s.term, "pool_dirty_before": p.term}
                nret = 0
                for o in outs:
                    if o.kind == "panic":
                        # unwrap on comp == None cannot happen (comp is always Some); other panics are C09's subject
                        continue
                    if o.kind != "return":
                        continue
                    nret += 1
                    if P.finisher_is_some(o.heap) != fin:
                        q(g, "arms_" + tag, o.pc, "%s changes the finisher (a read-only call must not arm it)" % name, get)
                    sflag, pflag = P.flag(o.heap, "summary"), P.flag(o.heap, "pool")
                    if not (isinstance(sflag, BoolV) and sflag.term == s.term):
                        q(g, "sflag_" + tag, o.pc, "%s changes is_summary_info_modified" % name, get)
                    if not (isinstance(pflag, BoolV) and pflag.term == p.term):
                        q(g, "pflag_" + tag, o.pc, "%s changes the string pool's modified flag" % name, get)
                    bad = [e for e in o.events if e[0] in MUTATING or (e[0] == "call" and re.search(r"create_stream|remove_stream|create_storage|remove_storage|set_", e[1]))]
                    if bad:
                        q(g, "writes_" + tag, o.pc, "%s issues a mutating container call: %r" % (name, bad[0][:2]), get)
                    g.witness.append(Query("w_%s_%d" % (tag, len(g.witness)), o.pc, "sat"))
                if nret == 0:
                    raise EncodingError("protocol: no return path through %s" % name)
        for name, rx, byval in (("flush", r"package::.*::flush$", False), ("into_inner", r"package::.*::into_inner$", True),
                                ("drop", r"package::<impl at [^>]*>::drop$", False)):
            tag = name + "_unarmed_ro"
            s, p, outs = P.run(rx, False, tag, by_value=byval, havoc=True)
            get = {"summary_dirty_before": s.term, "pool_dirty_before": p.term}
            for o in outs:
                if o.kind != "return":
                    continue
                bad = [e for e in o.events if e[0] in MUTATING or e[0] in ("finish-begin", "open_stream")]
                if bad:
                    q(g, "close_writes_" + tag, o.pc, "%s on a package whose finisher is not armed runs %r" % (name, bad[0][:2]), get)
                g.witness.append(Query("w_%s_%d" % (tag, len(g.witness)), o.pc, "sat"))
        groups.append(g)
    return groups
