"""Engine K: run Kani proof harnesses over /repo's current sources.

The harness crate (/verif/kani) includes /repo/src/internal by absolute
#[path], so every build is regenerated from /repo's working tree.  The crate is
copied to a scratch directory under /verif/.work for every run, built once
there, and the harnesses are then decided by separate CBMC processes in
parallel (they share the build output read-only).
"""
import os
import re
import shutil
import subprocess
import threading
import time
from concurrent.futures import ThreadPoolExecutor

VERIF = os.path.dirname(os.path.dirname(os.path.abspath(__file__)))
REPO = os.environ.get("VERIF_REPO", "/repo")
WORK = os.environ.get("VERIF_WORK", os.path.join(VERIF, ".work"))

BASE_ENV = dict(os.environ)
BASE_ENV.update({"CARGO_NET_OFFLINE": "true", "CARGO_TERM_COLOR": "never"})

FAST_FLAGS = ["-Z", "unstable-options", "--no-memory-safety-checks", "--no-assertion-reach-checks"]


class Harness:
    """One Kani proof harness and how to run it."""

    def __init__(self, name, tier="quick", timeout=600, mem_gb=3, flags=None, note="",
                 symbolic=None, bounds=None, functions=None, known=None, unwindset=None,
                 stub_fmt=False):
        self.name = name              # full path, e.g. proofs::c13::c13_binop_add
        self.tier = tier              # quick: runs in both tiers; thorough: thorough only
        self.timeout = timeout
        self.mem_gb = mem_gb
        self.flags = flags if flags is not None else list(FAST_FLAGS)
        self.note = note
        self.symbolic = symbolic or ""
        self.bounds = bounds or ""
        self.functions = functions or []
        self.known = known            # id of a known finding this (witness) harness is expected to exhibit
        self.unwindset = unwindset    # list of (function-name substring, bound)
        self.stub_fmt = stub_fmt


class Result:
    def __init__(self, h):
        self.h = h
        self.status = "NOT-RUN"   # PASS FAIL TIMEOUT OOM ERROR VACUOUS UNWIND
        self.failed = []          # [(description, location)]
        self.n_checks = 0
        self.n_failed = 0
        self.covers = None        # (sat, total)
        self.time_s = 0.0
        self.solver_s = 0.0
        self.log = ""
        self.replay = None


def prepare_crate(tag):
    """Copy the harness crate to scratch and pin /repo's lock file."""
    dst = os.path.join(WORK, tag, "crate")
    if os.path.exists(os.path.join(WORK, tag)):
        shutil.rmtree(os.path.join(WORK, tag), ignore_errors=True)
    os.makedirs(os.path.dirname(dst), exist_ok=True)
    shutil.copytree(os.path.join(VERIF, "kani"), dst,
                    ignore=shutil.ignore_patterns("target", "Cargo.lock"))
    shutil.copy(os.path.join(REPO, "Cargo.lock"), os.path.join(dst, "Cargo.lock"))
    if REPO != "/repo":
        # alternate repo root (used only by the self-tests on scratch worktrees)
        p = os.path.join(dst, "src", "lib.rs")
        s = open(p).read().replace('"/repo/src/internal/mod.rs"', '"%s/src/internal/mod.rs"' % REPO)
        open(p, "w").write(s)
    return dst


def feature_args(harnesses):
    """cargo feature flags selecting exactly the proof modules the given harnesses live in."""
    mods = sorted(set(h.name.split("::")[1] for h in harnesses))
    return ["--no-default-features", "--features", ",".join(["msi_verif"] + ["p_" + m for m in mods])]


def build(crate, log_path, harnesses):
    """Compile once (the proof modules of `harnesses`); returns (ok, seconds)."""
    t0 = time.time()
    env = dict(BASE_ENV)
    cmd = ["cargo", "kani", "--only-codegen", "--target-dir", os.path.join(crate, "target"),
           "-Z", "stubbing", "-Z", "unstable-options"] + feature_args(harnesses)
    with open(log_path, "w") as f:
        p = subprocess.run(cmd, cwd=crate, env=env, stdout=f, stderr=subprocess.STDOUT)
    return p.returncode == 0, time.time() - t0


_loops_cache = {}


def find_loop_ids(crate, harness_name, wanted):
    """Loop identifiers (for --unwindset) whose function name contains one of
    the `wanted` substrings, read out of the harness's goto binary."""
    short = harness_name.split("::")[-1]
    tdir = os.path.join(crate, "target", "kani")
    outs = []
    for root, _d, files in os.walk(tdir):
        for fn in files:
            if fn.endswith(".out") and short in fn:
                outs.append(os.path.join(root, fn))
    ids = []
    for out in outs:
        try:
            txt = subprocess.run(["goto-instrument", "--show-loops", out], capture_output=True,
                                 text=True, timeout=120).stdout
        except Exception:
            continue
        for m in re.finditer(r"^Loop (\S+):", txt, re.M):
            ids.append(m.group(1))
    sel = []
    for sub, bound in wanted:
        for i in ids:
            if sub in i:
                sel.append("%s:%d" % (i, bound))
    return sorted(set(sel))


CHECK_RE = re.compile(r"^Check (\d+): (\S+)\n\t - Status: (\S+)\n\t - Description: \"(.*?)\"?\n\t - Location: ([^\n]*)$", re.M | re.S)


def parse_log(txt, res):
    checks = CHECK_RE.findall(txt)
    res.n_checks = sum(1 for c in checks if ".cover." not in c[1])
    res.failed = [(c[3], c[4], c[1]) for c in checks if c[2] == "FAILURE"]
    res.undetermined = [(c[3], c[4], c[1]) for c in checks if c[2] == "UNDETERMINED"]
    m = re.search(r"\*\* (\d+) of (\d+) failed", txt)
    if m:
        res.n_failed = int(m.group(1))
        res.n_checks = max(res.n_checks, int(m.group(2)))
    m = re.search(r"\*\* (\d+) of (\d+) cover properties satisfied", txt)
    if m:
        res.covers = (int(m.group(1)), int(m.group(2)))
    m = re.search(r"Verification Time: ([0-9.]+)s", txt)
    if m:
        res.time_s = float(m.group(1))
    res.solver_s = sum(float(x) for x in re.findall(r"Runtime decision procedure: ([0-9.eE+-]+)s", txt))
    if "VERIFICATION:- SUCCESSFUL" in txt:
        res.status = "PASS"
        if res.covers and res.covers[0] < res.covers[1]:
            res.status = "VACUOUS"
    elif "VERIFICATION:- FAILED" in txt:
        res.status = "FAIL"
        if any("unwinding assertion" in d or "recursion unwinding" in d for d, _l, _n in res.failed):
            others = [f for f in res.failed if "unwinding" not in f[0]]
            if not others:
                res.status = "UNWIND"
        if not res.failed:
            # FAILED without a failed check is never a verdict about the code
            res.status = "ERROR"
    else:
        res.status = "ERROR"


def run_one(crate, h, out_dir, extra_args=None, timeout=None, feats=None):
    res = Result(h)
    short = h.name.split("::")[-1]
    os.makedirs(out_dir, exist_ok=True)
    log_path = os.path.join(out_dir, short + ".log")
    cmd = ["cargo", "kani", "--harness", h.name, "--exact", "--target-dir", os.path.join(crate, "target"),
           "-Z", "stubbing"] + list(h.flags) + list(feats or feature_args([h]))
    if h.unwindset:
        ids = find_loop_ids(crate, h.name, h.unwindset)
        if ids:
            if "unstable-options" not in " ".join(cmd):
                cmd += ["-Z", "unstable-options"]
            cmd += ["--cbmc-args", "--unwindset", ",".join(ids)]
    if extra_args:
        cmd += extra_args
    to = timeout or h.timeout
    mem_kb = int(max(h.mem_gb * 2.5, 8) * 1024 * 1024)
    shell = "ulimit -v %d; exec timeout -k 5 %d %s" % (mem_kb, to, " ".join("'%s'" % c for c in cmd))
    t0 = time.time()
    with open(log_path, "w") as f:
        p = subprocess.run(["bash", "-c", shell], cwd=crate, env=BASE_ENV, stdout=f, stderr=subprocess.STDOUT)
    wall = time.time() - t0
    txt = open(log_path, errors="replace").read()
    res.log = log_path
    if p.returncode == 124 or p.returncode == 137:
        res.status = "TIMEOUT"
        res.time_s = wall
        return res
    parse_log(txt, res)
    if res.status in ("ERROR", "FAIL") and not res.failed and (
            "std::bad_alloc" in txt or "Out of memory" in txt or "out of memory" in txt or "memory exhausted" in txt):
        res.status = "OOM"
    if res.time_s == 0.0:
        res.time_s = wall
    res.wall_s = wall
    return res


def run_many(crate, harnesses, out_dir, max_par=14, mem_budget_gb=52):
    """Run harnesses in parallel, packed by declared memory class."""
    max_par = int(os.environ.get("VERIF_MAX_PAR", max_par))
    mem_budget_gb = int(os.environ.get("VERIF_MEM_BUDGET_GB", mem_budget_gb))
    os.makedirs(out_dir, exist_ok=True)
    feats = feature_args(harnesses)
    lock = threading.Condition()
    state = {"mem": 0, "n": 0}
    results = {}

    def worker(h):
        with lock:
            while state["n"] >= max_par or (state["mem"] + h.mem_gb > mem_budget_gb and state["n"] > 0):
                lock.wait()
            state["n"] += 1
            state["mem"] += h.mem_gb
        try:
            r = run_one(crate, h, out_dir, feats=feats)
        finally:
            with lock:
                state["n"] -= 1
                state["mem"] -= h.mem_gb
                lock.notify_all()
        results[h.name] = r
        return r

    order = sorted(harnesses, key=lambda h: -h.timeout)
    with ThreadPoolExecutor(max_workers=max_par) as ex:
        list(ex.map(worker, order))
    return [results[h.name] for h in harnesses]


def concrete_playback(crate, h, out_dir, timeout=None, feats=None):
    """Re-run a failing harness with concrete playback, inject the generated
    unit test into the scratch copy of the crate, and execute it natively.
    Returns (reproduced: bool|None, test_source: str, detail: str)."""
    short = h.name.split("::")[-1]
    r = run_one(crate, h, out_dir + "_pb", extra_args=["-Z", "concrete-playback", "--concrete-playback=inplace"],
                timeout=timeout or h.timeout, feats=feats)
    txt = open(r.log, errors="replace").read()
    # collect the injected tests (kani puts them next to the harness -- for
    # macro-generated harnesses that is inside the macro body, so they are
    # moved to the end of the file of a pristine copy)
    test_src = ""
    test_name = None
    src_root = os.path.join(crate, "src")
    pristine_root = os.path.join(VERIF, "kani", "src")
    for root, _d, files in os.walk(src_root):
        for fn in files:
            p = os.path.join(root, fn)
            s = open(p).read()
            tests = re.findall(
                r"(/// Test generated for harness[^\n]*\n///\s*\n/// Check for `(\w+)`[^\n]*\n\s*\n?#\[test\]\s*fn (kani_concrete_playback_%s_\d+)\(\) \{.*?\n\})"
                % re.escape(short), s, re.S)
            if not tests:
                continue
            rel = os.path.relpath(p, src_root)
            pristine = open(os.path.join(pristine_root, rel)).read()
            keep = [t for t in tests if t[1] != "cover"] or tests
            test_src = "\n\n".join(t[0] for t in keep[:1])
            test_name = keep[0][2]
            open(p, "w").write(pristine + "\n\n" + test_src + "\n")
    if not test_name:
        return None, "", "no concrete playback test was generated (see %s)" % r.log
    pb_log = os.path.join(out_dir + "_pb", short + ".playback.log")
    cmd = "timeout 600 cargo kani playback -Z concrete-playback %s -- %s" % (" ".join(feats or feature_args([h])), test_name)
    with open(pb_log, "w") as f:
        p = subprocess.run(["bash", "-c", cmd], cwd=crate, env=BASE_ENV, stdout=f, stderr=subprocess.STDOUT)
    out = open(pb_log, errors="replace").read()
    if re.search(r"test result: FAILED|panicked at", out):
        m = re.search(r"panicked at ([^\n]*)\n([^\n]*)", out)
        return True, test_src, (m.group(0) if m else "test failed")
    if re.search(r"test result: ok", out):
        return False, test_src, "playback test passed natively (counterexample did not reproduce)"
    return None, test_src, "playback could not be run (see %s)" % pb_log


def measure_premises(crate):
    """Run the native premise probes (real Package over real cfb) and write
    src/gen_premises.rs of the scratch crate.  Premises, never verdicts."""
    env = dict(BASE_ENV)
    env["CARGO_TARGET_DIR"] = os.path.join(crate, "target_native")
    p = subprocess.run(["cargo", "test", "--offline", "--lib", "native::premises::probe_premises", "--",
                        "--nocapture", "--test-threads=1"], cwd=crate, env=env, capture_output=True, text=True)
    out = {}
    for m in re.finditer(r"OUT (\w+)=(.*)$", p.stdout, re.M):
        out[m.group(1)] = m.group(2).strip()
    if "c06_w_acc" not in out:
        out["_error"] = (p.stdout + p.stderr)[-1500:]
        return out
    w = out["c06_w_acc"]
    if w == "unbounded":
        val = "usize::MAX"
    elif w == "none":
        val = "0"
    else:
        val = w
    src = ("//! generated by the driver on this run from native probes of the public API\n"
           "pub const C06_W_ACC: usize = %s;\n" % val)
    open(os.path.join(crate, "src", "gen_premises.rs"), "w").write(src)
    if out.get("c06_shape_ok") == "0":
        out["_error"] = "acceptance of string widths is not upward-closed; premise shape assumption violated"
    return out
