"""Which harnesses / queries decide which property."""
from .kani_run import Harness, FAST_FLAGS

H = Harness
PROPS = {}

NOT_APPLICABLE = {
    "C03": "relational semantics of Insert/Update/Delete/Select::exec over histories: executors (BTreeMap<Vec<Value>,_>, HashSet<Vec<Value>>) plus the cfb container measured out of Kani's reach even on an in-memory container model (25 min / 10 GB for 2 rows); no loop-free kernel carries the property",
    "C04": "frame condition over the whole Package state before/after a failing call; exists only at Package level on top of cfb and the query executors (measured out of reach, see C03)",
    "C05": "invariant over all reachable table states under Insert/Update::exec; same measured obstacle as C03 (the cell-validity conjunct is decided under C07)",
    "C11": "stream-name packing builds Strings char by char from symbolic chars: measured 18-21 GB OOM for 1-2 symbolic chars and 50 GB in SAT conversion with concrete UTF-8 width; listing/contents/aliasing live in the cfb dependency",
    "C12": "Join::exec/Select::exec need the container and build Table/Column clones per result row; Select::exec of one 2-row table on a model container did not leave symbolic execution in 15 min / 8 GB",
    "C16": "holds by a type-level fact (read API has no Write bound) and a whole-object protocol (finisher is None until a mutating call) observable only on a real Package over cfb; there is no arithmetic or data-dependent kernel to make symbolic",
}

# ---------------------------------------------------------------- C13
_ops = ["eq", "ne", "lt", "le", "gt", "ge", "add", "sub", "mul", "div", "bitand", "bitor", "bitxor", "shl", "shr"]
_c13 = []
for op in _ops:
    wide = op in ("eq", "ne", "lt", "le", "gt", "ge", "add")
    _c13.append(H("proofs::c13::c13_binop_" + op, timeout=900 if wide else 600,
                  symbolic="two operand Values held in row columns: kind class enumerated concretely "
                           "({Null|Int(any i32)} symbolic, strings from {'', 'a', 'b'}), integer payloads full 32-bit",
                  bounds="unwind 4 (also bounds Ast::eval recursion at the real depth 2); %d kind pairs" % (16 if wide else 4),
                  functions=["expr::Ast::eval", "expr::BinOp::eval", "table::Row::index", "value::Value::to_bool"]))
    _c13.append(H("proofs::c13::c13_fold_" + op, timeout=900 if wide else 600,
                  symbolic="two literal operands, same domain; constant folding at construction",
                  bounds="unwind 4", functions=["expr::Expr::binop", "expr::BinOp::eval"]))
for n in ["c13_ordering_consistent", "c13_unop_neg", "c13_unop_bitnot", "c13_unop_boolnot", "c13_and_or",
          "c13_short_circuit", "c13_mul_exact16", "c13_div_exact16"]:
    _c13.append(H("proofs::c13::" + n, timeout=900, symbolic="operand Values as above (exact16: both operands any i16)",
                  bounds="unwind 4", functions=["expr::UnOp::eval", "expr::Ast::eval", "expr::Expr::unop"]))
PROPS["C13"] = {
    "level": "model_checking",
    "engine": "kani",
    "claim": "Bounded model checking of the compiled expression code: every one of the 18 operators, applied once "
             "to symbolic operand values (full 32-bit integers, Null, three strings), never panics and agrees with a "
             "reference operator table, both lazily (Ast::eval on a row) and when constant-folded at construction. "
             "Not a proof: exactness of * and / is decided for 16-bit operands only; deeper trees follow by the "
             "stated structural induction, which the solver does not check.",
    "note": "Trusted: Kani's model of the dev profile, CBMC/CaDiCaL, the reference table in kani/src/proofs/c13.rs. "
            "Outside: trees deeper than one operator, executor loops, arbitrary string contents.",
    "technique": "bounded model checking (Kani/CBMC, CaDiCaL) of Expr construction + Ast::eval, one operator "
                 "application over symbolic operand values, against a reference operator table",
    "kani": _c13,
    "bounds": "one operator application (induction over tree height is the stated paper step); integers full "
              "32-bit except exactness of * and / (16-bit operands); strings from {'', 'a', 'b'}",
    "outside": "trees deeper than one operator; conditions evaluated inside delete/update executors; arbitrary strings",
    "assumptions": ["Kani models the dev profile (overflow checks on)",
                    "memory-safety and reachability instrumentation switched off (safe Rust; panics, overflow, "
                    "bounds and unwinding assertions stay on)"],
}

# ---------------------------------------------------------------- C18
PROPS["C18"] = {
    "level": "model_checking",
    "engine": "mir-smt",
    "mir": True,
    "technique": "symbolic execution of the MIR of the four timestamp conversion functions into SMT-LIB2 over "
                 "integers with range side conditions; z3 decides each law, cvc5 must agree",
    "claim": "For the MIR of timestamp_from_system_time, system_time_from_timestamp, duration_to_timestamp_delta and "
             "timestamp_delta_to_duration as compiled from the current tree, z3 and cvc5 both find no counterexample, "
             "over the full 64-bit tick range and the full platform SystemTime range, to: no panic, tick round trip, "
             "100 ns resolution between 1601 and the tick maximum, idempotence, monotonicity, saturation at both ends. "
             "The bound is structural (these four loop-free functions plus hand models of eight std functions), not numeric.",
    "note": "Trusted: the MIR-to-SMT translator (validated on every run against the constants of the repo's own "
            "timestamp unit tests), the std models listed in the evidence, z3/cvc5. Outside: FILETIME property I/O "
            "through Package save/reopen (the 8-byte little-endian identity is a Kani harness), 32-bit platforms.",
    "bounds": "none on integers (u64 ticks, i64-second SystemTime); structural: four functions + std models",
    "outside": "through-Package persistence of the property; platforms whose SystemTime is narrower than i64 seconds",
    "assumptions": list(__import__("vlib.mir_engine", fromlist=["x"]).STD_MODELS_DOC),
}
