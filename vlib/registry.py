"""Which harnesses / queries decide which property."""
from .kani_run import Harness, FAST_FLAGS

H = Harness
PROPS = {}

NOT_APPLICABLE = {
    "C05": "invariant over all reachable table states under Insert/Update::exec; same measured obstacle as C03 (the cell-validity conjunct is decided under C07)",
}

# ---------------------------------------------------------------- C13
_wide = ["eq", "ne", "lt", "le", "gt", "ge", "add"]
_narrow = ["sub", "mul", "div", "bitand", "bitor", "bitxor", "shl", "shr"]
_c13 = []
_SYM13 = ("operand Values: kind enumerated concretely (Null, Int, '', 'a', 'b'), integer payloads symbolic, "
          "full 32-bit")
for op in _wide + _narrow:
    _c13.append(H("proofs::c13::c13_lazy_" + op, timeout=600, mem_gb=6 if op == "add" else 3, symbolic=_SYM13 + "; held in row columns A, B",
                  bounds="unwind 4 (also bounds Ast::eval recursion; real depth 2); kind pairs (Int,Int), ('a','b'), (Null,Int), (Int,'a')",
                  functions=["expr::Ast::eval", "expr::BinOp::eval", "table::Row::index", "value::Value::to_bool"]))
    for suf in (["_k0", "_k1", "_k2", "_k3", "_k4"] if op in _wide else [""]):
        _c13.append(H("proofs::c13::c13_fold_" + op + suf, tier="thorough" if suf in ("_k0", "_k2", "_k4") and op != "add" else "quick",
                      timeout=600, mem_gb=6 if op == "add" else 3, symbolic=_SYM13 + "; literal operands, folded at construction",
                      bounds="unwind 4; %s" % ("left kind fixed, 5 right kinds" if op in _wide else "9 kind pairs {Null,Int,'a'}^2"),
                      functions=["expr::Expr::binop", "expr::BinOp::eval"]))
for n in ["c13_ordering_consistent", "c13_unop_neg", "c13_unop_bitnot", "c13_unop_boolnot", "c13_and_or",
          "c13_and_or_literal_a", "c13_and_or_literal_b", "c13_short_circuit", "c13_mul_exact16", "c13_div_exact16"]:
    _c13.append(H("proofs::c13::" + n, timeout=900, symbolic="operand Values as above (exact16: both operands any i16)",
                  bounds="unwind 4", functions=["expr::UnOp::eval", "expr::Ast::eval", "expr::Expr::unop"]))
PROPS["C13"] = {
    "level": "model_checking",
    "engine": "kani", "mir": True,
    "claim": "Bounded model checking of the compiled expression code: every one of the 18 operators, applied once "
             "to symbolic operand values (full 32-bit integers, Null, three strings), never panics and agrees with a "
             "reference operator table, both lazily (Ast::eval on a row) and when constant-folded at construction. "
             "Engine M adds the structural half of the induction over tree height: for every combination of operand node "
             "kinds the constructors Expr::unop/binop/and/or fold to Literal(op.eval(..)) exactly when all operands of "
             "unop/binop are literals and otherwise build the operator node over the UNCHANGED operand trees (and/or never "
             "fold). Not a proof: exactness of * and / is decided for 16-bit operands only; the induction itself "
             "(single-node semantics + structure preservation => any depth) is on paper. The structural law is sufficient, "
             "not necessary: a semantics-preserving rewrite at construction time makes the check inconclusive (exit 2, its "
             "native replay finds no differing evaluation), never a VIOLATION.",
    "note": "Trusted: Kani's model of the dev profile, CBMC/CaDiCaL, the reference table in kani/src/proofs/c13.rs. "
            "Outside: trees deeper than one operator, executor loops, arbitrary string contents.",
    "technique": "bounded model checking (Kani/CBMC, CaDiCaL) of Expr construction + Ast::eval, one operator "
                 "application over symbolic operand values, against a reference operator table; symbolic execution of the MIR "
                 "of the four constructors over all operand-kind combinations (engine M), counterexamples replayed by a native "
                 "literal-versus-column differential evaluation",
    "kani": _c13,
    "bounds": "one operator application (induction over tree height is the stated paper step); integers full "
              "32-bit except exactness of * and / (16-bit operands); strings from {'', 'a', 'b'}",
    "outside": "trees deeper than one operator; conditions evaluated inside delete/update executors; arbitrary strings",
    "assumptions": ["Kani models the dev profile (overflow checks on)",
                    "memory-safety and reachability instrumentation switched off (safe Rust; panics, overflow, "
                    "bounds and unwinding assertions stay on)"],
}

# ---------------------------------------------------------------- C18
PROPS["C18"] = {
    "level": "model_checking",
    "engine": "mir-smt+kani",
    "mir": True,
    "kani": [Harness("proofs::propset::c18_timestamp_io", timeout=300, symbolic="the 64-bit tick count", bounds="8 bytes; unwind 10",
                     functions=["timestamp::Timestamp::write_to", "timestamp::Timestamp::read_from"]),
             Harness("proofs::propset::c09_propvalue_read_filetime", timeout=600, mem_gb=5, symbolic="the 8 FILETIME bytes (every tick value, 0 included), stream length",
                     bounds="type tag concrete (FILETIME)", functions=["propset::PropertyValue::read", "timestamp::Timestamp::read_from"])],
    "technique": "symbolic execution of the MIR of the four timestamp conversion functions into SMT-LIB2 over "
                 "integers with range side conditions; z3 decides each law, cvc5 must agree",
    "claim": "For the MIR of timestamp_from_system_time, system_time_from_timestamp, duration_to_timestamp_delta and "
             "timestamp_delta_to_duration as compiled from the current tree, z3 and cvc5 both find no counterexample, "
             "over the full 64-bit tick range and the full platform SystemTime range, to: no panic, tick round trip, "
             "100 ns resolution between 1601 and the tick maximum, idempotence, monotonicity, saturation at both ends. "
             "The bound is structural (these four loop-free functions plus hand models of eight std functions), not numeric.",
    "note": "Trusted: the MIR-to-SMT translator (validated on every run against the constants of the repo's own "
            "timestamp unit tests), the std models listed in the evidence, z3/cvc5. Outside: FILETIME property I/O "
            "through Package save/reopen (the 8-byte little-endian identity is a Kani harness), 32-bit platforms.",
    "bounds": "none on integers (u64 ticks, i64-second SystemTime); structural: four functions + std models",
    "outside": "through-Package persistence of the property; platforms whose SystemTime is narrower than i64 seconds",
    "assumptions": list(__import__("vlib.mir_engine", fromlist=["x"]).STD_MODELS_DOC),
}


# ======================================================================
# shared kernel harnesses
# ======================================================================
_CELLS = "proofs::cells::"
_ROWS = "proofs::rows::"
_POOL = "proofs::pool::"
_PS = "proofs::propset::"
_F_CELL = ["column::ColumnType::read_value", "column::ColumnType::write_value", "column::ColumnType::width",
           "stringpool::StringRef::read", "stringpool::StringRef::write"]
_F_ROWS = ["table::Table::write_rows", "column::ColumnType::write_value", "stringpool::StringRef::write"]
_F_POOL = ["stringpool::StringPool::incref", "stringpool::StringPool::decref", "stringpool::StringPool::get",
           "stringpool::StringPool::refcount", "stringpool::StringPoolBuilder::read_from_pool",
           "stringpool::StringPoolBuilder::build_from_data", "codepage::ascii_decode"]
_KASSUME = ["Kani models the dev profile (overflow checks and debug assertions on)",
            "std::fmt::format stubbed to return an empty String (message text is never the subject)",
            "io::Error values are mem::forget-ed in the harness (drop glue explodes symbolically)",
            "memory-safety and assertion-reachability instrumentation switched off (safe Rust only; panics, "
            "arithmetic overflow, slice bounds and unwinding assertions stay on)"]


def _cell_roundtrips():
    return [H(_CELLS + n, timeout=300, symbolic="cell value: Null or any integer valid for the column / any string reference 1..0xFFFFFF; reference width",
              bounds="one cell; unwind 6", functions=_F_CELL)
            for n in ["c01_cell_roundtrip_int16", "c01_cell_roundtrip_int32", "c01_cell_roundtrip_str_short",
                      "c01_cell_roundtrip_str_long"]]


_LAYOUT_Q = ["c01_layout_i16_str_r2_short", "c01_layout_i32_str_r2_long", "c01_layout_str_i16_r2_long", "c01_layout_i32_i16_r2"]
_LAYOUT_T = ["c01_layout_str_str_r2_short", "c01_layout_str_i32_r1_short", "c01_layout_i16_r2", "c01_layout_i32_r2",
             "c01_layout_str_r2_long", "c01_layout_i16_i16_r2", "c01_layout_i32_i32_r2", "c01_layout_i16_i32_r1"]


def _layouts():
    out = []
    for n in _LAYOUT_Q + _LAYOUT_T:
        out.append(H(_ROWS + n, tier="quick" if n in _LAYOUT_Q else "thorough", timeout=600,
                     symbolic="every cell of the row block (Null / valid integer / string reference), concrete column types and row count",
                     bounds="<= 2 rows x <= 2 columns (shape in the harness name); unwind 6", functions=_F_ROWS))
    return out


# ---------------------------------------------------------------- C01
PROPS["C01"] = {
    "level": "model_checking", "engine": "kani+mir-smt", "mir": True,
    "technique": "bounded model checking (Kani/CBMC) of the serialisation kernels (write->read identity per cell and "
                 "reference, written row block and pool image against an independent format description) + symbolic "
                 "execution of the MIR of Package's persistence protocol (dirty flags, finisher, flush/into_inner/Drop) "
                 "with cfb and the kernel writers as uninterpreted failing events, decided by z3/cvc5",
    "claim": "Bounded model checking of the kernels a save/reopen goes through: every cell value valid for its column "
             "is read back identically (all 16/32-bit integers, all reference numbers, both reference widths); "
             "Table::write_rows emits exactly the column-major block of the format description for all cell contents "
             "of <=2x2 tables; write_pool/write_data emit exactly the described image of the pool state and the "
             "reader maps such images back to that state; interning a string value keeps the pool invariant (the "
             "empty string is stored as null). Above the kernels, from an arbitrary state of the dirty flags: every "
             "mutating entry point arms the finisher and marks what it dirtied; FinishImpl::finish rewrites exactly the "
             "dirty streams through truncating create_stream, clears a flag only after its writes succeeded and returns Ok "
             "only if every step did; flush / into_inner / Drop run the armed finisher, propagate its error and (flush) the "
             "container's flush result. cfb itself, Package::open and multi-step histories are outside the claim.",
    "note": "Trusted: Kani/CBMC, the format description re-implemented in the harnesses. Outside: FinishImpl::finish, "
            "Package::open's catalogue reconstruction, Table::read_rows (measured out of reach), the cfb container (its "
            "calls are uninterpreted events that may fail), strings other than '', 'a', 'b', code pages other than "
            "US-ASCII, histories longer than one step. Protocol models are listed in the evidence.",
    "kani": _cell_roundtrips() + _layouts() + [
        H(_POOL + "c01_pool_image_ab", timeout=600, symbolic="reference counts (u16) of a 2-entry pool, texts 'a','b' concrete",
          bounds="2 entries; unwind 8", functions=["stringpool::StringPool::write_pool", "stringpool::StringPool::write_data", "codepage::ascii_encode"]),
        H(_POOL + "c01_pool_image_a_free_b_long", tier="thorough", timeout=1200, mem_gb=8, symbolic="reference counts of a 3-entry pool with a free slot, long refs",
          bounds="3 entries; unwind 8", functions=["stringpool::StringPool::write_pool", "stringpool::StringPool::write_data"]),
        H(_POOL + "c02_pool_read_ab", timeout=300, symbolic="reference counts (u16) in an independently encoded pool header",
          bounds="2 entries; unwind 8", functions=_F_POOL),
        H(_POOL + "c01_value_intern_empty", timeout=300, symbolic="pre-state reference counts; value '' interned into a fresh and a 2-entry pool",
          bounds="unwind 8", functions=["value::ValueRef::create", "stringpool::StringPool::incref", "value::ValueRef::to_value"]),
        H(_POOL + "c01_value_intern_a", timeout=300, symbolic="pre-state reference counts; value 'a' interned",
          bounds="unwind 8", functions=["value::ValueRef::create", "stringpool::StringPool::incref"]),
        H(_CELLS + "c20_stringref_width", timeout=300, symbolic="reference number 1..0xFFFFFF, width flag", bounds="unwind 6",
          functions=["stringpool::StringRef::write", "stringpool::StringRef::read"]),
        # every pool mutation marks the pool modified (the finisher saves the pool only then)
        H(_POOL + "c08_incref_free_a_a", timeout=600, symbolic="reference counts; incref reusing a free slot", bounds="3 entries incl. a free slot; unwind 6", functions=_F_POOL),
        H(_POOL + "c08_incref_ab_a", timeout=600, symbolic="reference counts; incref of an existing entry / at the cap", bounds="2 entries; unwind 6", functions=_F_POOL),
        H(_POOL + "c08_decref_ab", timeout=600, symbolic="reference counts, entry index; decref to zero and above zero", bounds="2 entries; unwind 6", functions=_F_POOL),
    ],
    "bounds": "one cell; <=2 rows x <=2 columns; pools of <=3 entries with concrete texts; all integers / reference counts symbolic",
    "outside": "composition through Package and cfb (finisher, close modes, crash after flush), read_rows, long strings, other code pages",
    "assumptions": _KASSUME,
}

# ---------------------------------------------------------------- C02
PROPS["C02"] = {
    "level": "model_checking", "engine": "kani+mir-smt", "mir": True,
    "technique": "bounded model checking (Kani/CBMC): the real decoders on arbitrary bytes vs. reference decoders written "
                 "from the format description (differential)",
    "claim": "Engine M: PropertySet::read (loops unrolled to <= 2 directory entries / values, reader calls arbitrary): every value stored in the returned set was decoded with exactly the code page the set reports, wherever the code-page property is laid out or listed. Kani: For arbitrary input bytes the cell decoder, the reference decoder, the column bit-field decoder (all 2^32 "
             "bit-fields) and the pool header/data reader return exactly what an independent description of the format "
             "says, and refuse what it refuses. Decoder kernels only: Package::open, read_rows, property sets with "
             "strings and code pages are outside.",
    "note": "Trusted: Kani/CBMC, the reference decoders in kani/src/proofs/cells.rs and pool.rs. Outside: Package::open "
            "(catalogue joins), Table::read_rows (measured out of reach), stream-name decoding, preservation of "
            "untouched content after modification.",
    "kani": [
        H(_CELLS + "c02_read_value_vs_spec", timeout=300, symbolic="4 input bytes, input length 0..4, column type, reference width",
          bounds="one cell; unwind 6", functions=_F_CELL),
        H(_CELLS + "c02_bitfield_vs_spec", timeout=300, symbolic="the whole i32 bit-field", bounds="loop-free",
          functions=["column::ColumnBuilder::with_bitfield", "column::ColumnType::from_bitfield"]),
        H(_POOL + "c02_pool_read_ab", timeout=300, symbolic="reference counts (u16) in an independently encoded pool header",
          bounds="2 entries, texts concrete; unwind 8", functions=_F_POOL),
        H(_POOL + "c02_pool_read_a_free_a_long", timeout=300, symbolic="reference counts; duplicate text and a free slot; 3-byte references",
          bounds="3 entries; unwind 8", functions=_F_POOL),
        H(_POOL + "c02_pool_read_zero_count_with_text", timeout=600, symbolic="the live entry's reference count; the unused entry's count is concrete 0 but it still has text",
          bounds="2 entries; unwind 8", functions=_F_POOL),
        H(_POOL + "c02_pool_header_shapes", timeout=600, symbolic="none: seven concrete header shapes incl. the long-string escape with low word 0, 1, 0xffff (a symbolic escape marker makes the entry count symbolic: > 15 min)",
          bounds="<=3 records; unwind 8", functions=["stringpool::StringPoolBuilder::read_from_pool", "stringpool::StringPoolBuilder::build_from_data"]),
        H(_PS + "c09_propvalue_read_i4", timeout=600, mem_gb=5, symbolic="8 payload bytes, available stream length", bounds="type tag concrete (I4); unwind 8", functions=["propset::PropertyValue::read"]),
        H(_PS + "c09_propvalue_read_i2", tier="thorough", timeout=900, mem_gb=5, symbolic="payload bytes, stream length", bounds="type tag concrete (I2)", functions=["propset::PropertyValue::read"]),
    ],
    "bounds": "one cell / one bit-field / pools of <=3 entries / property sets of 2 integer properties",
    "outside": "Package::open, read_rows, code pages, strings in property sets, modification of foreign files",
    "assumptions": _KASSUME,
}

# ---------------------------------------------------------------- C06
PROPS["C06"] = {
    "level": "model_checking", "engine": "kani+mir-smt", "premises": True, "mir": True,
    "technique": "bounded model checking (Kani/CBMC) of Column::bitfield -> ColumnBuilder::with_bitfield over all "
                 "column definitions create_table accepts (acceptance boundary measured natively per run)",
    "claim": "For every column definition (type, any usize string width, localizable/nullable/primary-key flags, "
             "category) that the real create_table accepts -- bit-field storable in the catalogue's Type cell and "
             "width within the natively measured acceptance boundary -- decoding the stored bit-field yields the same "
             "type, width and flags; all 26 category names survive as_str/parse. Kernel level; save/reopen is outside. Engine M: "
             "create_table gets as far as its first catalog step only if every enumeration value of every column visited is non-empty "
             "and free of ';' (the values are stored joined by ';' and split again on open: on the pinned tree `[\"a;b\"]` reopened as "
             "`[\"a\", \"b\"]` and `[\"\"]` as no enumeration at all; fixed in /repo).",
    "note": "Trusted: Kani/CBMC; the premise that create_table refuses string widths above the measured boundary "
            "(native bisection on the real Package, refusal assumed upward-closed and spot-checked). Outside: "
            "_Validation row handling in create_table/open (range, foreign key), 32-column "
            "lists, names, save/reopen through cfb.",
    "kani": [
        H("proofs::c06::c06_bitfield_roundtrip", timeout=300, symbolic="column type, string width (any usize), three flags, category class",
          bounds="loop-free kernel; width premise from native probe", functions=["column::Column::bitfield", "column::ColumnBuilder::with_bitfield",
                                                                              "column::ColumnType::from_bitfield", "column::Column::is_valid_value"]),
        H("proofs::c06::c06_category_name_roundtrip", timeout=600, symbolic="none (26 categories enumerated inside the harness)",
          bounds="unwind 30", functions=["category::Category::as_str", "category::Category::from_str", "category::Category::all"]),
    ],
    "bounds": "single column definition; all widths/flags",
    "outside": "validation-table round trip, enumerations, save/reopen",
    "assumptions": _KASSUME + ["create_table's acceptance boundary for string widths is measured natively on this run and assumed upward-closed"],
}

# ---------------------------------------------------------------- C08
PROPS["C08"] = {
    "level": "model_checking", "engine": "kani+mir-smt", "mir": True,
    "technique": "bounded model checking (Kani/CBMC): one incref/decref/create/remove step from an arbitrary pool state "
                 "satisfying the representation invariant (inductive step instead of histories); written images vs format",
    "claim": "From every pool state of the listed shapes whose reference counts are arbitrary u16 values satisfying "
             "'count 0 <=> empty text', one incref / decref / ValueRef create+remove changes exactly one count by exactly "
             "one, never wraps at 0xFFFF, clears text at zero, leaves every other entry alone and re-establishes the "
             "invariant; written row blocks and pool images equal the format description. Cross-table accounting and "
             "dropped tables are outside.",
    "note": "Trusted: Kani/CBMC; the invariant (if it were too weak the harness, not the code, is corrected). Outside: "
            "reference count == number of referring cells across tables, catalogue numbering, drop_table not releasing "
            "its rows' strings (package.rs:691-708; visible by reading, Package-level).",
    "kani": [H(_POOL + n, timeout=600, symbolic="reference counts (u16 each) of the pre-state; for decref the entry index",
               bounds="pool shape in the harness name (<=3 entries, texts from {'', 'a', 'b'}); unwind 6", functions=_F_POOL)
             for n in ["c08_incref_ab_a", "c08_incref_ab_b", "c08_incref_aa_a", "c08_incref_free_a_a", "c08_incref_a_free_b",
                       "c08_incref_a_b", "c08_incref_aba_a", "c08_decref_ab", "c08_decref_a_free_a", "c08_value_ref_pairing"]]
    + [H(_POOL + "c01_pool_image_ab", timeout=600, symbolic="reference counts of a 2-entry pool", bounds="unwind 8",
         functions=["stringpool::StringPool::write_pool", "stringpool::StringPool::write_data"]),
       H(_POOL + "c01_value_intern_empty", timeout=300, symbolic="pre-state reference counts", bounds="unwind 8",
         functions=["value::ValueRef::create"])]
    + [H(_ROWS + n, timeout=600, symbolic="all cells", bounds="2x2; unwind 6", functions=_F_ROWS) for n in _LAYOUT_Q[:2]],
    "bounds": "pools of <=3 entries, one operation",
    "outside": "cross-table reference accounting, catalogue tables, dropped tables",
    "assumptions": _KASSUME + ["representation invariant of reachable pool states: refcount == 0 <=> text == ''"],
}

# ---------------------------------------------------------------- C15
PROPS["C15"] = {
    "level": "model_checking", "engine": "kani+mir-smt", "mir": True,
    "technique": "bounded model checking (Kani/CBMC) of the generic writer kernels with the medium replaced by a "
                 "nondeterministic buffered writer: the fault schedule is a symbolic variable; MIR-level protocol of "
                 "finish/flush/into_inner/Drop with every container call an event that may fail (z3/cvc5)",
    "claim": "Engine M, all four writers (write_rows, write_pool, write_data, PropertySet::write; loops unrolled to <= 2 items; every operation on the caller's writer a fallible event; wrappers around the writer are executed as crate code): Ok is returned only if every operation on the writer succeeded, the last one is the writer's own flush() and nothing is written after it. Kani: For write_rows, write_pool, write_data and PropertySet::write, instantiated with a writer that has the "
             "contract of cfb::Stream (buffering, flush may fail, Drop flushes and discards the error) and whose every "
             "write/flush call may fail nondeterministically: whenever the kernel returns Ok, every accepted byte has "
             "reached the medium once the by-value writer is gone; no schedule panics. Propagation through "
             "FinishImpl/Package::flush and the container is outside (confirmed once natively by kani/src/native/c15.rs).",
    "note": "Trusted: the stub writer's fidelity to cfb::Stream (cfb-0.10.0 stream.rs:210-248), Kani/CBMC. The claim "
            "applies while call sites hand the stream over by value. Outside: cfb itself, read/seek faults, finisher.",
    "kani": [
        H(_ROWS + "c15_write_rows_i16_i32_r1", timeout=600, symbolic="cell values; one failure bit per write/flush call", bounds="1 row x 2 columns; buffer 6 bytes; unwind 6", functions=_F_ROWS),
        H(_ROWS + "c15_write_rows_str_i16_r2", timeout=900, symbolic="cell values; one failure bit per write/flush call", bounds="2 rows x 2 columns; unwind 6", functions=_F_ROWS),
        H(_POOL + "c15_write_pool", timeout=900, symbolic="reference counts; failure bits", bounds="2 entries; unwind 8", functions=["stringpool::StringPool::write_pool"]),
        H(_POOL + "c15_write_data", timeout=900, symbolic="failure bits", bounds="2 entries; unwind 8", functions=["stringpool::StringPool::write_data"]),
        H(_PS + "c15_propset_write", timeout=1200, mem_gb=6, symbolic="property value; failure bits", bounds="1 property; unwind 10", functions=["propset::PropertySet::write"]),
    ],
    "bounds": "<=2x2 rows, 2 pool entries, 1 property; every schedule of failing calls",
    "outside": "FinishImpl::finish / Package::flush propagation, the cfb container, read and seek faults",
    "assumptions": _KASSUME + ["writer stub = contract of cfb::Stream; streams are passed by value (today's call sites)"],
}

# ---------------------------------------------------------------- C10
_C10_SHAPES = ["empty", "a", "ab", "abc", "abcd", "e1", "e1a", "e2", "e2a", "cjk", "cjk2a"]
PROPS["C10"] = {
    "level": "model_checking", "engine": "kani+mir-smt", "mir": True,
    "technique": "bounded model checking (Kani/CBMC) of PropertyValue::write vs. the size the offset table is computed "
                 "from (through the msi_verif hook), the code-page property for all 26 code pages, and C18's timestamp laws",
    "claim": "Engine M, every value kind, code page and string (CodePage::encode uninterpreted, result length symbolic): the bytes "
             "PropertyValue::write hands to the writer on success number exactly encoded_size_including_padding(), a multiple of 4, both "
             "taking the length from the same encode call. Kani, concrete shapes: "
             "per property value: the bytes PropertyValue::write emits equal the size PropertySet::write uses for the "
             "offset table, are a multiple of 4, and an LPSTR's length field equals its encoded bytes + 1 -- for all "
             "scalar values (symbolic) and for 11 concrete string shapes covering every residue of UTF-8 vs encoded "
             "length mod 4 under US-ASCII; set_codepage keeps property 1 and the cached code page in step for all 26 "
             "code pages (16-bit id stored signed) -- by Kani from the default state and by engine M from an arbitrary cached code "
             "page (the latter found that UTF-8's id 65001 was not recognised when switching to it: fixed in /repo 79b811b). String contents are concrete shapes: honestly close to a table of "
             "runs decided by CBMC. Setter sequences, other code pages' encoders and save/reopen are outside.",
    "note": "Trusted: Kani/CBMC; the cfg-gated hook only forwards to the private functions. Outside: PropertySet::write's "
            "own loop over the BTreeMap (3 properties: > 10 min, measured), SummaryInfo setter sequences, template "
            "split/merge, encoding_rs code pages, save/reopen.",
    "kani": [H(_PS + "c10_size_law_str_" + n, timeout=300, symbolic="none (string shape concrete); the law is checked on the bytes produced",
               bounds="string shape %s; unwind 12" % n, functions=["propset::PropertyValue::write", "propset::PropertyValue::encoded_size_including_padding", "codepage::ascii_encode"])
             for n in _C10_SHAPES]
    + [H(_PS + "c10_size_law_scalars", timeout=300, symbolic="I1/I2/I4/FILETIME payloads", bounds="unwind 12",
         functions=["propset::PropertyValue::write", "propset::PropertyValue::encoded_size_including_padding", "timestamp::Timestamp::write_to"]),
       H(_PS + "c10_codepage_property", timeout=300, symbolic="code page id (any i32 that names a code page: all 26)", bounds="loop-free",
         functions=["propset::PropertySet::set_codepage", "propset::PropertySet::set", "codepage::CodePage::from_id", "codepage::CodePage::id"]),
       H(_PS + "c09_propvalue_read_filetime", timeout=600, mem_gb=5, symbolic="8 FILETIME bytes, stream length", bounds="type tag concrete", functions=["propset::PropertyValue::read"])],
    "bounds": "one property value at a time; 11 string shapes; all scalar payloads; all 26 code pages for property 1",
    "outside": "setter sequences, multi-property sets, template property, encoding_rs code pages, save/reopen",
    "assumptions": _KASSUME + ["hook feature msi_verif exposes PropertyValue::write / encoded_size_including_padding unchanged"],
}

# ---------------------------------------------------------------- C20 (Kani part; the M part is added below)
PROPS["C20"] = {
    "level": "model_checking", "engine": "kani+mir-smt", "mir": True,
    "technique": "bounded model checking (Kani/CBMC) of StringRef::write for every reference number; MIR of "
                 "Table::read_rows' integer prefix symbolically executed into SMT (z3/cvc5) for every stream length and row size",
    "claim": "All five limits, each as a kernel law. (3) For every number of columns, create_table's argument checks (MIR prefix) are passed "
             "exactly for a valid name, 1..=32 columns and a primary key; 33+ columns are an error, never a panic. (1) For every reference number 1..0xFFFFFF: in two-byte mode StringRef::write returns "
             "an error exactly when the number exceeds 0xFFFF (never truncates, never panics) and otherwise round-trips; "
             "three-byte mode always writes 3 bytes. (2) For every u64 stream length and row size, Table::read_rows' prefix "
             "cannot divide by zero or overflow, allocates exactly data_length / row_size rows only when that is <= 65536 "
             "and returns the limit error exactly when it is larger. (4) Insert::exec (MIR, symbolic row counts) rewrites a table only if rows-already-there + rows-of-the-batch <= the "
             "reader's limit, checked before any batch row is stored (on the pinned tree nothing limited the write side: a 65,537-row table "
             "was saved and then refused by the library's own reader; fixed in /repo f73032c). (5) StringPool::incref (MIR, symbolic pool "
             "size): its only non-returning paths are the two capacity panics -- a KNOWN FINDING (the 65,536th distinct string panics; "
             "demonstrated natively), recorded in known_findings.json, not repaired. Name-length limits: C04's create_table gate and "
             "C11's is_valid law; update_rows cannot add rows.",
    "note": "Trusted: Kani/CBMC; MIR translator, models of seek/rewind/sum (fresh integers), z3/cvc5. create_table's column "
            "limit, incref's 65,536th-string panic (needs a 65,535-entry pool) and name-length limits need Package/cfb.",
    "kani": [H(_CELLS + "c20_stringref_width", timeout=300, symbolic="reference number 1..0xFFFFFF, width flag", bounds="unwind 6",
               functions=["stringpool::StringRef::write", "stringpool::StringRef::read"]),
             H(_CELLS + "c01_cell_roundtrip_str_short", timeout=300, symbolic="string cell value, two-byte references", bounds="unwind 6", functions=_F_CELL)],
    "bounds": "all 24-bit reference numbers",
    "outside": "limits reached incrementally across reopen cycles (each law is one call from an arbitrary count), round trip of tables at the limit (native replay only)",
    "assumptions": _KASSUME,
}


# ---------------------------------------------------------------- C19
PROPS["C19"] = {
    "level": "model_checking", "engine": "mir-smt", "mir": True,
    "technique": "symbolic execution of the MIR of one activation of Ast::format_with_precedence (event mode) into "
                 "guarded token templates; z3/cvc5 decide, per (parent, slot, child) operator triple, that parentheses are "
                 "emitted wherever the property's precedence ladder needs them",
    "claim": "From the MIR of Ast::format_with_precedence and BinOp::precedence as compiled from the current tree: every "
             "node kind prints its own operator token between its operands in order with balanced parentheses, and for "
             "every (parent operator, operand slot, child operator) the child is parenthesised whenever the ladder OR < "
             "AND < NOT < comparison < | < ^ < & < shifts < + - < * / < unary - ~ (binary levels left-associative) "
             "requires it. That the printed text re-parses to the printed tree for trees of any height follows by the "
             "usual structural induction, which is the stated paper step. Of the statement printers, Select::format_for_join "
             "(loop-free) is decided too: a join operand is printed as a bare table name only if it has no projection, no "
             "condition and is a plain table, otherwise as a parenthesised sub-select. The Display impls of SELECT/INSERT/"
             "UPDATE/DELETE themselves loop over rows/columns and are outside.",
    "note": "Trusted: the MIR-to-SMT translator (validated on every run by rendering the nine expressions of the repo's "
            "own display test from the derived templates), the reference ladder in vlib/mir_engine.py, z3/cvc5. A "
            "counterexample triple is rebuilt through the public Expr constructors, printed by the real Display, "
            "re-read by an independent precedence parser and evaluated natively before it is reported. Outside: "
            "literal escaping, Display of Select/Join/Insert/Update/Delete.",
    "bounds": "one printer activation; parent precedence any i32; all 22 node kinds; all 20x2x22 operator triples",
    "outside": "statement-level Display, literals needing escapes, tokenisation issues such as '--'",
    "assumptions": ["write_str modelled as 'emit token, return Ok' (error early-returns do not change what is printed)",
                    "recursive calls modelled as 'emit child k at precedence p'", "Value's Display and String::as_str are opaque events"],
}

# ---------------------------------------------------------------- C14
PROPS["C14"] = {
    "level": "model_checking", "engine": "mir-smt+kani", "mir": True,
    "technique": "MIR of CodePage::encoding symbolically executed over a symbolic discriminant, z3/cvc5 compare the table "
                 "with the Windows reference; Kani/CBMC decide the id maps (all i32) and the US-ASCII codec laws",
    "claim": "For the project-code part of the code-page layer: identifier lookup and reverse lookup are mutually inverse "
             "for every i32 (Kani); every code page selects the encoding_rs table of the Windows code page its identifier "
             "names (MIR + SMT, symbolic discriminant; 28591 -> windows-1252 accepted); the US-ASCII codec obeys the "
             "per-character and concatenation laws on six concrete string shapes (a table of runs decided by CBMC). The 1024-byte chunk "
             "loop of CodePage::encode (MIR + SMT, the encoder an uninterpreted call bound only by its documented contract, <= 2 encoder "
             "calls): each call gets exactly the unread input, exactly the bytes written are appended, '?' exactly after Unmappable, and "
             "encode returns only when the whole string was consumed -- so the encoding of a string is the concatenation of its "
             "characters' encodings whatever its length, given encoding_rs's contract. That encoding_rs's tables implement the Windows "
             "code pages is trusted.",
    "note": "Trusted: encoding_rs's tables (per-character laws over 1.1M scalars x 26 pages are table lookups inside a "
            "dependency: one symbolic char through WINDOWS_1252 did not finish in 10 min), the reference table in "
            "vlib/mir_engine.py, translator, z3/cvc5, Kani/CBMC. Outside: decoding laws of the non-ASCII pages, more than 2 (thorough: 3) encoder calls.",
    "kani": [
        H("proofs::c14::c14_id_inverse", timeout=300, symbolic="any i32 identifier; any of the 26 code pages", bounds="loop-free",
          functions=["codepage::CodePage::from_id", "codepage::CodePage::id"]),
        H("proofs::c14::c14_ascii_shapes", timeout=600, symbolic="none: six concrete string shapes (symbolic bytes through the String-building codec run out of memory, measured)",
          bounds="6 shapes; unwind 8", functions=["codepage::ascii_encode", "codepage::ascii_decode", "codepage::CodePage::encode", "codepage::CodePage::decode"]),
        H("proofs::c14::c14_ascii_decode_shapes", timeout=600, symbolic="none: one concrete byte string with non-ASCII bytes", bounds="unwind 8", functions=["codepage::ascii_decode"]),
    ],
    "bounds": "all i32 ids; all 26 code pages (symbolic discriminant); US-ASCII codec on concrete shapes only",
    "outside": "encoding_rs tables, the chunked encoder loop, strings across the 1024-byte buffer boundary",
    "assumptions": _KASSUME,
}


# ---------------------------------------------------------------- C07
_C07Q = ["c07_identifier_len1", "c07_identifier_len3", "c07_property_len3", "c07_uppercase_len3", "c07_lowercase_len3",
         "c07_integer_len2", "c07_integer_len5", "c07_doubleinteger_len3",
         "c07_cabinet_len3", "c07_guid_total_short", "c07_int_gate", "c07_str_gate"]
_C07T = ["c07_integer_len6", "c07_doubleinteger_len10"]     # c07_cabinet_len13 ran out of memory (8 GB class) in the thorough validation run: dropped
PROPS["C07"] = {
    "level": "model_checking", "engine": "kani+mir-smt", "mir": True,
    "technique": "bounded model checking (Kani/CBMC) of Category::validate and Column::is_valid_value on symbolic inputs "
                 "against reference predicates written from the documented grammar (differential)",
    "claim": "Column::is_valid_value agrees with the documented validity for every 32-bit integer / null against every "
             "symbolic integer or string column definition (type, nullability, range); Category::validate agrees with "
             "reference predicates for every ASCII string of the stated length per category (identifier, property, "
             "upper/lower case, 16/32-bit integer text, cabinet) and never panics; the version and language-list "
             "grammars go through str::split, which runs CBMC out of memory at 24 GB even on ten CONCRETE strings "
             "(measured), so they are outside the claim together with GUID; where the "
             "documentation is silent (leading '+', the most negative integer) no verdict is demanded. GUID grammar "
             "(38 symbolic bytes through Uuid::parse_str: no answer in 13 min) is outside. The insert gate itself is decided on "
             "the MIR of Insert::exec's validation phase (engine M, loops unrolled to 3 visits per block, rows/columns/values "
             "opaque, lengths symbolic, is_valid_value uninterpreted): the mutation phase is reached only if every visited row "
             "has the arity of the table and every value taken out of it was passed to Column::is_valid_value and accepted. "
             "Update::exec's gate and batches longer than the unrolling bound are outside.",
    "note": "Trusted: Kani/CBMC, the reference predicates in kani/src/proofs/c07.rs. Outside: Insert/Update::exec's use of "
            "the validators, arities, strings longer than the stated lengths, non-ASCII strings, GUID and the library-built "
            "UUID / language-list values.",
    "kani": [H("proofs::c07::" + n, tier="quick" if n in _C07Q else "thorough", timeout=900 if n in _C07Q else 2400,
               mem_gb=5 if n in _C07Q else 10,
               symbolic="every byte of an ASCII string of the length in the harness name (int_gate: column type, nullability, range, value)",
               bounds="string length as named; unwind as in the harness", functions=["category::Category::validate", "column::Column::is_valid_value"])
             for n in _C07Q + _C07T],
    "bounds": "strings of 1-6 (thorough: up to 13) ASCII bytes; full 32-bit integers",
    "outside": "GUID, multi-byte strings, the executors' gate, arities",
    "assumptions": _KASSUME,
}

# ---------------------------------------------------------------- C17
_C17Q = ["c17_code_preserved", "c17_tag_total", "c17_unknown_region_en", "c17_unknown_region_zh", "c17_unknown_region_de",
         "c17_unknown_region_fr", "c17_unknown_region_es", "c17_unknown_region_ar", "c17_unknown_language",
         "c17_well_known_a", "c17_well_known_b", "c17_well_known_c", "c17_well_known_d", "c17_well_known_e",
         "c17_unknown_language_with_known_prefix", "c17_regional_tag_unique"]
PROPS["C17"] = {
    "level": "model_checking", "engine": "kani",
    "technique": "bounded model checking (Kani/CBMC) of Language::{from_code, code, tag, from_tag}: all 65,536 codes "
                 "symbolically for the code->tag direction, concrete tags for the table-scanning tag->code direction",
    "claim": "For every 16-bit identifier: the code is preserved; tag() returns without panicking, gives 'und' for an "
             "unknown language whatever the sublanguage, and otherwise the bare language tag or a '<language>-<region>' "
             "extension of it. For six languages a tag with an unknown region maps to a code that carries the bare "
             "language tag (never a different known regional variant); an unknown language maps to the neutral "
             "language; 24 well-known Windows identifiers carry their standard tags in both directions (concrete tags: "
             "a table comparison decided by CBMC). Thorough tier: tag -> language -> tag stability for every code whose "
             "tag has length 2, 3 or 5 (per-loop unwind bounds read from the goto binary).",
    "note": "Trusted: Kani/CBMC; the list of well-known identifier/tag pairs in kani/src/proofs/c17.rs (from the Windows "
            "language-identifier reference). Outside: tags longer than 5 bytes in the stability harness, non-ASCII tags, "
            "arbitrary symbolic tags through from_tag's 127-entry scan (measured: 10 min / 9 GB per length class).",
    "kani": [H("proofs::c17::" + n, timeout=1200, mem_gb=10 if n == "c17_regional_tag_unique" else 3,
               symbolic="the 16-bit code (code_preserved, tag_total, two codes for regional_tag_unique); none for the concrete-tag harnesses",
               bounds="unwind 14 (binary searches) / 130 (table scan on concrete tags)", functions=["language::Language::from_code", "language::Language::tag", "language::Language::from_tag", "language::Language::code"])
             for n in _C17Q]
    + [H("proofs::c17::c17_stable_len%d" % L, tier="thorough", timeout=3000, mem_gb=12, symbolic="the 16-bit code, restricted to tags of length %d" % L,
         bounds="global unwind 9; from_tag's table loops 130 via --unwindset", functions=["language::Language::from_tag", "language::Language::tag"],
         unwindset=[("from_tag", 130)]) for L in (2, 3, 5)],
    "bounds": "all 65,536 codes (code -> tag); 6 + 24 concrete tags (tag -> code)",
    "outside": "symbolic tags, tags longer than 5 bytes",
    "assumptions": _KASSUME,
}

# ---------------------------------------------------------------- C09
PROPS["C09"] = {
    "level": "model_checking", "engine": "kani+mir-smt", "mir": True,
    "technique": "bounded model checking (Kani/CBMC) of the parser kernels on arbitrary buffers; Kani's panic / overflow / "
                 "bounds checks are the assertion",
    "claim": "Engine M: PropertyValue::read returns a value or an error for every type tag, length field and reader behaviour (string loop unrolled to 2 bytes): no overflow, index or unwrap panic. Kani: Untrusted input modelled as an arbitrary buffer: the cell decoder, reference decoder and bit-field decoder "
             "(all inputs), the pool header reader (any <=14 bytes), build_from_data on short data, and the pool's read "
             "accessors on foreign states (any counts, any reference 1..0xFFFFFF) return a value or an error, never "
             "panic. Pool mutators on foreign states panic in two known regions (recorded as known findings, witnessed on "
             "every run); outside those regions they do not. Arbitrary FILES (cfb), Package::open's catalogue unwraps, "
             "read_rows, joins and the FFI layer are outside.",
    "note": "Trusted: Kani/CBMC. Outside: cfb::CompoundFile::open, the unwraps on catalogue cells in Package::open "
            "(package.rs:311,342-353,377-386,418-451; visible by reading, reachable only through the container), "
            "Table::read_rows (measured out of reach), property sets with strings, ffi crate.",
    "kani": [
        H(_CELLS + "c02_read_value_vs_spec", timeout=300, symbolic="4 input bytes, length 0..4, column type, reference width", bounds="unwind 6", functions=_F_CELL),
        H(_CELLS + "c02_bitfield_vs_spec", timeout=300, symbolic="the whole i32 bit-field", bounds="loop-free", functions=["column::ColumnBuilder::with_bitfield"]),
        H(_POOL + "c09_pool_header_total", timeout=900, symbolic="14 header bytes and the stream length 0..14", bounds="unwind 8", functions=["stringpool::StringPoolBuilder::read_from_pool", "codepage::CodePage::from_id"]),
        H(_POOL + "c09_pool_data_short", timeout=900, symbolic="two entry lengths 0..2, reference counts, available data bytes 0..3", bounds="unwind 8", functions=["stringpool::StringPoolBuilder::build_from_data"]),
        H(_POOL + "c09_pool_data_non_ascii", timeout=600, symbolic="reference count; data bytes 'a', 0xE9 concrete", bounds="1 entry of 2 bytes; unwind 8", functions=["stringpool::StringPoolBuilder::build_from_data", "codepage::CodePage::decode"]),
        H("proofs::c14::c14_ascii_decode_shapes", timeout=600, symbolic="none: concrete bytes incl. 0x80, 0xff under US-ASCII", bounds="unwind 8", functions=["codepage::CodePage::decode"]),
        H(_POOL + "c09_pool_read_ops_total", timeout=600, symbolic="reference counts (no invariant), reference number 1..0xFFFFFF", bounds="2 entries; unwind 8", functions=["stringpool::StringPool::get", "stringpool::StringPool::refcount"]),
        H(_POOL + "c09_pool_write_ops_guarded", timeout=900, symbolic="reference counts, entry index, operation", bounds="2 entries; outside the known-finding regions", functions=["stringpool::StringPool::decref", "stringpool::StringPool::incref"]),
        H(_POOL + "c09_kf_decref_dangling", timeout=600, known="C09-decref-dangling", symbolic="reference number 3..0xFFFFFF", bounds="witness of a known finding", functions=["stringpool::StringPool::decref"]),
        H(_POOL + "c09_kf_decref_zero_count", timeout=600, known="C09-decref-zero-count", symbolic="other entry's count", bounds="witness of a known finding", functions=["stringpool::StringPool::decref"]),
        H(_POOL + "c09_kf_incref_zero_count_with_text", timeout=600, known="C09-incref-zero-count-with-text", symbolic="other entry's count", bounds="witness of a known finding", functions=["stringpool::StringPool::incref"]),
        H(_PS + "c09_propvalue_read_lpstr_len0", timeout=600, mem_gb=5, symbolic="payload bytes, stream length; LPSTR length field 0", bounds="type tag and length field concrete; unwind 8", functions=["propset::PropertyValue::read"]),
        H(_PS + "c09_propvalue_read_lpstr_len1", timeout=600, mem_gb=5, symbolic="payload bytes, stream length; LPSTR length field 1", bounds="type tag and length field concrete", functions=["propset::PropertyValue::read"]),
        H(_PS + "c09_propvalue_read_i4", timeout=600, mem_gb=5, symbolic="payload bytes, stream length", bounds="type tag concrete (I4)", functions=["propset::PropertyValue::read"]),
        H(_PS + "c09_propvalue_read_unknown", timeout=600, mem_gb=5, symbolic="payload bytes, stream length", bounds="type tag concrete (5: unknown)", functions=["propset::PropertyValue::read"]),
    ] + [H(_PS + n, tier="thorough", timeout=900, mem_gb=5, symbolic="payload bytes, stream length", bounds="type tag concrete", functions=["propset::PropertyValue::read"])
         for n in ["c09_propvalue_read_i2", "c09_propvalue_read_i1", "c09_propvalue_read_filetime", "c09_propvalue_read_empty", "c09_propvalue_read_lpstr_len2", "c09_propvalue_read_lpstr_huge"]] + [
    ],
    "bounds": "buffers of 4-14 bytes; pools of 2 entries",
    "outside": "arbitrary files, Package::open, read_rows, joins, FFI",
    "assumptions": _KASSUME,
}

# ---------------------------------------------------------------- C16
PROPS["C16"] = {
    "level": "model_checking", "engine": "mir-smt", "mir": True,
    "technique": "symbolic execution of the MIR of Package's &mut-self read entry points and of the three ways of closing, "
                 "from an arbitrary state of the dirty flags, with the container as uninterpreted events; z3/cvc5 decide "
                 "that no path arms the finisher, changes a flag or issues a mutating container call",
    "claim": "The project-code part of the property. From any state of the dirty flags and with the finisher armed or not: "
             "select_rows and read_stream (the only read operations that take &mut self; the others take &self and cannot "
             "mutate by the type system) never arm the finisher, never change is_summary_info_modified or the pool's modified "
             "flag and issue no create/remove/write call on the container; flush, into_inner and Drop on a package whose "
             "finisher is not armed run no finisher and issue no create/remove/write call. That Package::open constructs the "
             "package unarmed and clean (a loop-heavy function), and that cfb's own open/read/flush paths do not write, are "
             "outside the claim.",
    "note": "Trusted: the MIR translator, the protocol models (evidence), z3/cvc5; calls to functions outside the crate are "
            "arbitrary-result events. Outside: Package::open's construction of the initial state, the cfb dependency, "
            "byte-identity of the medium (a whole-file observation).",
    "bounds": "one call from an arbitrary flag state; both finisher states",
    "outside": "Package::open, cfb internals, sequences of read calls (each call is one inductive step)",
    "assumptions": list(__import__("vlib.mir_protocol", fromlist=["x"]).PROTOCOL_MODELS_DOC),
}

# ---------------------------------------------------------------- C04 (partial)
PROPS["C04"] = {
    "level": "model_checking", "engine": "mir-smt", "mir": True,
    "technique": "symbolic execution of the MIR of the stream entry points, drop_table and create_table (loops unrolled, insert_rows a "
                 "fallible event, Column::is_valid_value an uninterpreted predicate) with the container as uninterpreted events; z3/cvc5 "
                 "decide that an argument error is returned before any mutating event; counterexamples replayed through public-API scenarios",
    "claim": "Part of the property: (1) for read_stream, write_stream, remove_stream and drop_table, from any state of the dirty flags, an "
             "error caused by the arguments (invalid, reserved or unknown name) is returned before any creating/removing container call, "
             "executor run or table-list change, without arming the finisher; stream names are validated as stream names before the container "
             "is touched and the container is addressed by one stream-style encoding of that name. (2) create_table: before its FIRST catalog "
             "insert or table registration, every batch it later hands to insert_rows was gone through completely with Column::is_valid_value "
             "holding for every visited cell, against the columns of the catalog table it goes into - so a definition the catalog tables cannot "
             "store (column/table names over 32 characters, oversized enumerations ...) is refused before anything changes. (3) the executors' "
             "validate-before-mutate gates are decided under C07 (insert), C05 (update: assignments and key collisions) and C12 (select names). "
             "NOT decided: the frame condition 'every observable identical' as a whole-package snapshot, failures of the medium, delete's gate.",
    "note": "Trusted: MIR translator, protocol models, iterator models, z3/cvc5. On the pinned tree law (2) failed (a 33..64-character column "
            "name was refused only by the _Validation insert, after _Columns and _Tables had been written and the table registered): fixed in "
            "/repo 2dbe5fd.",
    "bounds": "one call from an arbitrary flag state; create_table: one row and one cell visited per catalog batch, <= 1 column in the name-check loop",
    "outside": "whole-package snapshots, medium failures, Delete::exec's gate",
    "assumptions": list(__import__("vlib.mir_protocol", fromlist=["x"]).PROTOCOL_MODELS_DOC) + [
        "Package::insert_rows is a fallible event inside create_table (its own gate is C07's law)"],
}

# ---------------------------------------------------------------- C11 (partial)
PROPS["C11"] = {
    "level": "model_checking", "engine": "mir-smt", "mir": True,
    "technique": "symbolic execution of the MIR of streamname::encode / decode / is_valid / to_b64 / from_b64 (names of <= 3 symbolic "
                 "characters, String::push as events), of Streams::next and of the stream entry points of Package (container as uninterpreted "
                 "events) into SMT; round trip and injectivity decided by z3/cvc5 over the reference packing the code is pinned to; native replay",
    "claim": "(1) Alphabet: to_b64 / from_b64 equal the reference 64-symbol alphabet [0-9A-Za-z._] <-> 0..63 for every char / value, a "
             "bijection; no panic. (2) Packing, names of <= 3 characters: encode emits token by token the reference packing (two packable "
             "neighbours -> 0x3800 + (b64(second) << 6) + b64(first); a lone packable -> 0x4800 + b64; anything else unchanged; table marker "
             "first iff is_table), decode inverts it token by token (marker only in first position), neither panics; is_valid(name, false) "
             "accepts only names that do not start with the marker and contain no character of 0x3800..0x4840; and over the reference, for "
             "every such name, decode(encode(n)) = (n, false), and two different such names (<= 2 characters each) never encode alike. "
             "(3) Calls: read_stream / write_stream / remove_stream validate the name as a STREAM name before touching the container, address "
             "the container only by its stream-style encoding (table streams are not reachable), return invalid / unknown names as errors "
             "without a creating or removing call, never panic on these paths. (4) Listing: Streams::next skips an entry exactly when it is "
             "not a stream, or its RAW name is one of the four special names, or it decodes as a table; otherwise returns decode(raw). "
             "NOT decided: names longer than 3 characters (the loops are uniform, but that is an argument, not a query), the 31-unit length "
             "rule, stream contents, aliasing under cfb's own (case-insensitive) name comparison, digital-signature removal.",
    "note": "Trusted: MIR translator, models of Chars/Peekable (position over a symbolic character array), char::is_ascii_* / char::from_u32, "
            "protocol models, z3/cvc5. On the pinned tree law (2) failed: is_valid accepted names containing the packing's own code points, so "
            "\"00\" and \"\\u{3800}\" named the same stream (fixed in /repo cde8fbc).",
    "bounds": "names of <= 3 Unicode scalar values (injectivity: <= 2 + 2); all 6-bit values; one stream call from an arbitrary flag state; <= 2 entries per listing call",
    "outside": "longer names, is_valid's length rule, contents, digital-signature removal, cfb",
    "assumptions": list(__import__("vlib.mir_protocol", fromlist=["x"]).PROTOCOL_MODELS_DOC) + [
        "str::chars / Peekable are a position over an array of symbolic scalar values whose length is fixed per path"],
}

# ---------------------------------------------------------------- C12 (partial)
PROPS["C12"] = {
    "level": "model_checking", "engine": "mir-smt", "mir": True,
    "technique": "symbolic execution of the MIR of Join::exec (Inner, Left) and Select::exec with their loops unrolled, sub-selects, tables "
                 "and expression evaluation arbitrary, the join condition an uninterpreted boolean per row pair, name lookups "
                 "uninterpreted predicates; z3/cvc5; counterexamples replayed through public-API join/select scenarios",
    "claim": "(1) Row combination, <= 2 left x 2 right rows: for each left row in order and each right row in order the concatenation "
             "(left cells first) is emitted exactly when the condition holds for that pair; a left join emits each unmatched left row "
             "once, after its right rows, padded on the right; nothing else is emitted. (2) Names: on every path on which Join::exec "
             "evaluates its ON condition, and on every path on which Select::exec filters or builds its result, every column name "
             "mentioned (<= 2 per condition, <= 2 requested columns) was looked up in the table the rows belong to and found - so the "
             "panicking Row index cannot miss and unknown names end in Err - and the projection indices are the lookups' results in "
             "the requested order. NOT decided: the table.column naming of result columns (Column::with_name_prefix), nullability of "
             "left-join columns, the projection's cell copying (closures), composition of nested joins beyond the per-node laws, and "
             "unknown TABLE names (Join::Table's not_found path is read, not encoded).",
    "note": "Trusted: MIR translator, iterator models (collection, position), z3/cvc5. The per-node laws compose over any select tree "
            "because each node's sub-selects are arbitrary results in the encoding, but that composition argument is on paper.",
    "bounds": "<= 2 x 2 rows, <= 2 names per condition, <= 2 requested columns (each MIR block visited at most 3 times per path)",
    "outside": "result column naming, nullability, projection closures, unknown table names, larger row/name counts",
    "assumptions": ["iterators modelled by (underlying collection, position)", "Select::exec / Join::exec sub-calls, Rows, Table::new, Expr::eval are arbitrary-result events",
                    "Table::has_column / index_for_column_name are uninterpreted predicates of (table, name)"],
}

# ---------------------------------------------------------------- C05 (partial)
PROPS["C05"] = {
    "level": "model_checking", "engine": "mir-smt", "mir": True,
    "technique": "symbolic execution of the MIR of Update::exec and Insert::exec with their loops unrolled and iteration lengths consistent along a "
                 "path; Column::is_valid_value / Table::has_column / Column::is_primary_key uninterpreted predicates of their arguments' identities; "
                 "key-map / key-set operations, the sort, ValueRef::create/remove and the final write as events; z3/cvc5; counterexamples "
                 "replayed through a public-API key-invariant scenario (inserts and updates on single- and composite-key tables, with reopen)",
    "claim": "One step from a table that satisfies the invariant (the inductive step; the induction over histories is on paper). UPDATE: every "
             "assignment is checked (column exists, is_valid_value of that column and value) before any cell changes; when an assigned column is a "
             "primary-key column, every row's resulting key passes a key-set membership test before the first cell changes, a collision does not "
             "reach the write, and the rows are re-sorted before being written. INSERT: every batch row's key is tested against the key-ordered "
             "map of existing rows and against the batch's own key set before anything is interned or written, a collision does not get that far, "
             "every batch row is inserted into the map, and what is written is the map's values in key order, untouched. BUILDERS: Insert::row/rows and Update::set store a value only after a function that maps \"\" to Null and nothing else, so the gates see the value that is stored. NOT decided here: that "
             "BTreeMap/HashSet/sort implement their contracts (std); for UPDATE the key vectors tested and sorted by are shown to be built by "
             "mapping over Table::primary_key_indices() (the per-index closure that picks the cell is not walked), for INSERT the key "
             "extraction is not examined; cell validity of inserted rows (C07 decides that gate), is_valid_value itself (C07, engine K), "
             "delete/insert cycles as such (delete removes rows by retain and cannot reorder), and the reopen part (C20/C01 decide the row codec "
             "and the save protocol).",
    "note": "Trusted: MIR translator, iterator models, z3/cvc5, std collections. The property's own anchors name the defect this check found on "
            "the pinned tree (Update::exec rewrote key cells with no re-check or re-sort), fixed in /repo ae9c1f1.",
    "bounds": "<= 2 assignments, <= 2 existing rows, <= 2 batch rows (each MIR block visited at most 3 times per path)",
    "outside": "std collection contracts, key extraction closures, histories longer than one step (by induction on paper), foreign files with unordered rows",
    "assumptions": ["iterators modelled by (underlying collection, position) with consistent lengths along a path",
                    "Column::is_valid_value taken as true inside the Insert key law (C07 decides the validation gate)",
                    "external calls are arbitrary-result events that touch only what they are handed"],
}

# ---------------------------------------------------------------- C03 (partial)
PROPS["C03"] = {
    "level": "model_checking", "engine": "mir-smt", "mir": True,
    "technique": "symbolic execution of the MIR of the executors' per-row kernels (the retain predicates of Delete::exec and Select::exec, the "
                 "row loop of Update::exec with loops unrolled), of the executors' container calls, and of Rows::next / size_hint from an "
                 "arbitrary iterator state; conditions are uninterpreted booleans per row; z3/cvc5; counterexamples replayed through a "
                 "public-API scenario that compares every table with an in-memory relational model after every operation",
    "claim": "The per-row and per-call kernels only; the comparison with a relational model over operation HISTORIES is not decided (it follows "
             "from these kernels, C05's key laws, C20's row codec and C01's save protocol by an argument on paper). Decided: DELETE keeps a row "
             "exactly when a condition is present and false on that row; the SELECT filter keeps a row exactly when its condition is true on that "
             "row; UPDATE rewrites a row exactly when there is no condition or it is true on that row, and then exactly the cells named by the "
             "assignments (<= 2), each to the assignment's value, nothing else; the executors' only container calls are exists/open_stream and, "
             "for the writers, exactly one create_stream, all on the stream of the statement's own table (frame condition: other tables, streams, "
             "summary untouched by an executor); Rows::len() = rows.len() - next_row_index, next() yields rows[next_row_index] and advances by "
             "one exactly while rows are left (so the reported length equals the number of rows yielded, by induction). NOT decided: insert "
             "adds exactly the given rows (C05 decides keys/order, the cell interning closure is not walked), projection cell copying, "
             "ascending key order of what select returns (that is the stored order: C05), and the meaning of conditions (C13).",
    "note": "Trusted: MIR translator, iterator models, z3/cvc5. The frame law is sufficient, not necessary: an executor that uses other "
            "container calls without changing observable state makes the check inconclusive (exit 2), never a VIOLATION.",
    "bounds": "<= 2 rows, <= 2 assignments, <= 2 cells per row in the filter kernels (each MIR block visited at most 2-3 times per path)",
    "outside": "operation histories, reopen, insert's cell interning, projection copying, condition semantics",
    "assumptions": ["iterators modelled by (underlying collection, position) with consistent lengths along a path",
                    "external calls are arbitrary-result events that touch only what they are handed",
                    "in the update kernel the key-update branch is switched off (no assigned column is a primary key): C05 decides that branch"],
}
