"""Which harnesses / queries decide which property."""
from .kani_run import Harness, FAST_FLAGS

H = Harness
PROPS = {}

NOT_APPLICABLE = {
    "C03": "relational semantics of Insert/Update/Delete/Select::exec over histories: executors (BTreeMap<Vec<Value>,_>, HashSet<Vec<Value>>) plus the cfb container measured out of Kani's reach even on an in-memory container model (25 min / 10 GB for 2 rows); no loop-free kernel carries the property",
    "C04": "frame condition over the whole Package state before/after a failing call; exists only at Package level on top of cfb and the query executors (measured out of reach, see C03)",
    "C05": "invariant over all reachable table states under Insert/Update::exec; same measured obstacle as C03 (the cell-validity conjunct is decided under C07)",
    "C11": "stream-name packing builds Strings char by char from symbolic chars: measured 18-21 GB OOM for 1-2 symbolic chars and 50 GB in SAT conversion with concrete UTF-8 width; listing/contents/aliasing live in the cfb dependency",
    "C12": "Join::exec/Select::exec need the container and build Table/Column clones per result row; Select::exec of one 2-row table on a model container did not leave symbolic execution in 15 min / 8 GB",
    "C16": "holds by a type-level fact (read API has no Write bound) and a whole-object protocol (finisher is None until a mutating call) observable only on a real Package over cfb; there is no arithmetic or data-dependent kernel to make symbolic",
}

# ---------------------------------------------------------------- C13
_wide = ["eq", "ne", "lt", "le", "gt", "ge", "add"]
_narrow = ["sub", "mul", "div", "bitand", "bitor", "bitxor", "shl", "shr"]
_c13 = []
_SYM13 = ("operand Values: kind enumerated concretely (Null, Int, '', 'a', 'b'), integer payloads symbolic, "
          "full 32-bit")
for op in _wide + _narrow:
    _c13.append(H("proofs::c13::c13_lazy_" + op, timeout=600, mem_gb=6 if op == "add" else 3, symbolic=_SYM13 + "; held in row columns A, B",
                  bounds="unwind 4 (also bounds Ast::eval recursion; real depth 2); kind pairs (Int,Int), ('a','b'), (Null,Int), (Int,'a')",
                  functions=["expr::Ast::eval", "expr::BinOp::eval", "table::Row::index", "value::Value::to_bool"]))
    for suf in (["_k0", "_k1", "_k2", "_k3", "_k4"] if op in _wide else [""]):
        _c13.append(H("proofs::c13::c13_fold_" + op + suf, timeout=600, mem_gb=6 if op == "add" else 3, symbolic=_SYM13 + "; literal operands, folded at construction",
                      bounds="unwind 4; %s" % ("left kind fixed, 5 right kinds" if op in _wide else "9 kind pairs {Null,Int,'a'}^2"),
                      functions=["expr::Expr::binop", "expr::BinOp::eval"]))
for n in ["c13_ordering_consistent", "c13_unop_neg", "c13_unop_bitnot", "c13_unop_boolnot", "c13_and_or",
          "c13_short_circuit", "c13_mul_exact16", "c13_div_exact16"]:
    _c13.append(H("proofs::c13::" + n, timeout=900, symbolic="operand Values as above (exact16: both operands any i16)",
                  bounds="unwind 4", functions=["expr::UnOp::eval", "expr::Ast::eval", "expr::Expr::unop"]))
PROPS["C13"] = {
    "level": "model_checking",
    "engine": "kani",
    "claim": "Bounded model checking of the compiled expression code: every one of the 18 operators, applied once "
             "to symbolic operand values (full 32-bit integers, Null, three strings), never panics and agrees with a "
             "reference operator table, both lazily (Ast::eval on a row) and when constant-folded at construction. "
             "Not a proof: exactness of * and / is decided for 16-bit operands only; deeper trees follow by the "
             "stated structural induction, which the solver does not check.",
    "note": "Trusted: Kani's model of the dev profile, CBMC/CaDiCaL, the reference table in kani/src/proofs/c13.rs. "
            "Outside: trees deeper than one operator, executor loops, arbitrary string contents.",
    "technique": "bounded model checking (Kani/CBMC, CaDiCaL) of Expr construction + Ast::eval, one operator "
                 "application over symbolic operand values, against a reference operator table",
    "kani": _c13,
    "bounds": "one operator application (induction over tree height is the stated paper step); integers full "
              "32-bit except exactness of * and / (16-bit operands); strings from {'', 'a', 'b'}",
    "outside": "trees deeper than one operator; conditions evaluated inside delete/update executors; arbitrary strings",
    "assumptions": ["Kani models the dev profile (overflow checks on)",
                    "memory-safety and reachability instrumentation switched off (safe Rust; panics, overflow, "
                    "bounds and unwinding assertions stay on)"],
}

# ---------------------------------------------------------------- C18
PROPS["C18"] = {
    "level": "model_checking",
    "engine": "mir-smt",
    "mir": True,
    "technique": "symbolic execution of the MIR of the four timestamp conversion functions into SMT-LIB2 over "
                 "integers with range side conditions; z3 decides each law, cvc5 must agree",
    "claim": "For the MIR of timestamp_from_system_time, system_time_from_timestamp, duration_to_timestamp_delta and "
             "timestamp_delta_to_duration as compiled from the current tree, z3 and cvc5 both find no counterexample, "
             "over the full 64-bit tick range and the full platform SystemTime range, to: no panic, tick round trip, "
             "100 ns resolution between 1601 and the tick maximum, idempotence, monotonicity, saturation at both ends. "
             "The bound is structural (these four loop-free functions plus hand models of eight std functions), not numeric.",
    "note": "Trusted: the MIR-to-SMT translator (validated on every run against the constants of the repo's own "
            "timestamp unit tests), the std models listed in the evidence, z3/cvc5. Outside: FILETIME property I/O "
            "through Package save/reopen (the 8-byte little-endian identity is a Kani harness), 32-bit platforms.",
    "bounds": "none on integers (u64 ticks, i64-second SystemTime); structural: four functions + std models",
    "outside": "through-Package persistence of the property; platforms whose SystemTime is narrower than i64 seconds",
    "assumptions": list(__import__("vlib.mir_engine", fromlist=["x"]).STD_MODELS_DOC),
}


# ======================================================================
# shared kernel harnesses
# ======================================================================
_CELLS = "proofs::cells::"
_ROWS = "proofs::rows::"
_POOL = "proofs::pool::"
_PS = "proofs::propset::"
_F_CELL = ["column::ColumnType::read_value", "column::ColumnType::write_value", "column::ColumnType::width",
           "stringpool::StringRef::read", "stringpool::StringRef::write"]
_F_ROWS = ["table::Table::write_rows", "column::ColumnType::write_value", "stringpool::StringRef::write"]
_F_POOL = ["stringpool::StringPool::incref", "stringpool::StringPool::decref", "stringpool::StringPool::get",
           "stringpool::StringPool::refcount", "stringpool::StringPoolBuilder::read_from_pool",
           "stringpool::StringPoolBuilder::build_from_data", "codepage::ascii_decode"]
_KASSUME = ["Kani models the dev profile (overflow checks and debug assertions on)",
            "std::fmt::format stubbed to return an empty String (message text is never the subject)",
            "io::Error values are mem::forget-ed in the harness (drop glue explodes symbolically)",
            "memory-safety and assertion-reachability instrumentation switched off (safe Rust only; panics, "
            "arithmetic overflow, slice bounds and unwinding assertions stay on)"]


def _cell_roundtrips():
    return [H(_CELLS + n, timeout=300, symbolic="cell value: Null or any integer valid for the column / any string reference 1..0xFFFFFF; reference width",
              bounds="one cell; unwind 6", functions=_F_CELL)
            for n in ["c01_cell_roundtrip_int16", "c01_cell_roundtrip_int32", "c01_cell_roundtrip_str_short",
                      "c01_cell_roundtrip_str_long"]]


_LAYOUT_Q = ["c01_layout_i16_str_r2_short", "c01_layout_i32_str_r2_long", "c01_layout_str_i16_r2_long", "c01_layout_i32_i16_r2"]
_LAYOUT_T = ["c01_layout_str_str_r2_short", "c01_layout_str_i32_r1_short", "c01_layout_i16_r2", "c01_layout_i32_r2",
             "c01_layout_str_r2_long", "c01_layout_i16_i16_r2", "c01_layout_i32_i32_r2", "c01_layout_i16_i32_r1"]


def _layouts():
    out = []
    for n in _LAYOUT_Q + _LAYOUT_T:
        out.append(H(_ROWS + n, tier="quick" if n in _LAYOUT_Q else "thorough", timeout=600,
                     symbolic="every cell of the row block (Null / valid integer / string reference), concrete column types and row count",
                     bounds="<= 2 rows x <= 2 columns (shape in the harness name); unwind 6", functions=_F_ROWS))
    return out


# ---------------------------------------------------------------- C01
PROPS["C01"] = {
    "level": "model_checking", "engine": "kani",
    "technique": "bounded model checking (Kani/CBMC) of the serialisation kernels: write->read identity per cell and "
                 "reference, written row block and pool image against an independent format description",
    "claim": "Bounded model checking of the kernels a save/reopen goes through: every cell value valid for its column "
             "is read back identically (all 16/32-bit integers, all reference numbers, both reference widths); "
             "Table::write_rows emits exactly the column-major block of the format description for all cell contents "
             "of <=2x2 tables; write_pool/write_data emit exactly the described image of the pool state and the "
             "reader maps such images back to that state; interning a string value keeps the pool invariant (the "
             "empty string is stored as null). Composition through Package/cfb, close modes and crash points are "
             "outside the claim.",
    "note": "Trusted: Kani/CBMC, the format description re-implemented in the harnesses. Outside: FinishImpl::finish, "
            "flush/into_inner/Drop, Package::open's catalogue reconstruction, Table::read_rows (measured out of reach), "
            "strings other than '', 'a', 'b', code pages other than US-ASCII, histories longer than one step.",
    "kani": _cell_roundtrips() + _layouts() + [
        H(_POOL + "c01_pool_image_ab", timeout=600, symbolic="reference counts (u16) of a 2-entry pool, texts 'a','b' concrete",
          bounds="2 entries; unwind 8", functions=["stringpool::StringPool::write_pool", "stringpool::StringPool::write_data", "codepage::ascii_encode"]),
        H(_POOL + "c01_pool_image_a_free_b_long", tier="thorough", timeout=900, symbolic="reference counts of a 3-entry pool with a free slot, long refs",
          bounds="3 entries; unwind 8", functions=["stringpool::StringPool::write_pool", "stringpool::StringPool::write_data"]),
        H(_POOL + "c02_pool_read_ab", timeout=300, symbolic="reference counts (u16) in an independently encoded pool header",
          bounds="2 entries; unwind 8", functions=_F_POOL),
        H(_POOL + "c01_value_intern_empty", timeout=300, symbolic="pre-state reference counts; value '' interned into a fresh and a 2-entry pool",
          bounds="unwind 8", functions=["value::ValueRef::create", "stringpool::StringPool::incref", "value::ValueRef::to_value"]),
        H(_POOL + "c01_value_intern_a", timeout=300, symbolic="pre-state reference counts; value 'a' interned",
          bounds="unwind 8", functions=["value::ValueRef::create", "stringpool::StringPool::incref"]),
        H(_CELLS + "c20_stringref_width", timeout=300, symbolic="reference number 1..0xFFFFFF, width flag", bounds="unwind 6",
          functions=["stringpool::StringRef::write", "stringpool::StringRef::read"]),
    ],
    "bounds": "one cell; <=2 rows x <=2 columns; pools of <=3 entries with concrete texts; all integers / reference counts symbolic",
    "outside": "composition through Package and cfb (finisher, close modes, crash after flush), read_rows, long strings, other code pages",
    "assumptions": _KASSUME,
}

# ---------------------------------------------------------------- C02
PROPS["C02"] = {
    "level": "model_checking", "engine": "kani",
    "technique": "bounded model checking (Kani/CBMC): the real decoders on arbitrary bytes vs. reference decoders written "
                 "from the format description (differential)",
    "claim": "For arbitrary input bytes the cell decoder, the reference decoder, the column bit-field decoder (all 2^32 "
             "bit-fields) and the pool header/data reader return exactly what an independent description of the format "
             "says, and refuse what it refuses. Decoder kernels only: Package::open, read_rows, property sets with "
             "strings and code pages are outside.",
    "note": "Trusted: Kani/CBMC, the reference decoders in kani/src/proofs/cells.rs and pool.rs. Outside: Package::open "
            "(catalogue joins), Table::read_rows (measured out of reach), stream-name decoding, preservation of "
            "untouched content after modification.",
    "kani": [
        H(_CELLS + "c02_read_value_vs_spec", timeout=300, symbolic="4 input bytes, input length 0..4, column type, reference width",
          bounds="one cell; unwind 6", functions=_F_CELL),
        H(_CELLS + "c02_bitfield_vs_spec", timeout=300, symbolic="the whole i32 bit-field", bounds="loop-free",
          functions=["column::ColumnBuilder::with_bitfield", "column::ColumnType::from_bitfield"]),
        H(_POOL + "c02_pool_read_ab", timeout=300, symbolic="reference counts (u16) in an independently encoded pool header",
          bounds="2 entries, texts concrete; unwind 8", functions=_F_POOL),
        H(_POOL + "c02_pool_read_a_free_a_long", timeout=300, symbolic="reference counts; duplicate text and a free slot; 3-byte references",
          bounds="3 entries; unwind 8", functions=_F_POOL),
        H(_PS + "c02_propset_read_vs_spec", tier="thorough", timeout=1800, mem_gb=12,
          symbolic="two integer property values, order of the id/offset table, padding between values",
          bounds="2 properties; unwind 10", functions=["propset::PropertySet::read", "propset::PropertyValue::read"]),
    ],
    "bounds": "one cell / one bit-field / pools of <=3 entries / property sets of 2 integer properties",
    "outside": "Package::open, read_rows, code pages, strings in property sets, modification of foreign files",
    "assumptions": _KASSUME,
}

# ---------------------------------------------------------------- C06
PROPS["C06"] = {
    "level": "model_checking", "engine": "kani", "premises": True,
    "technique": "bounded model checking (Kani/CBMC) of Column::bitfield -> ColumnBuilder::with_bitfield over all "
                 "column definitions create_table accepts (acceptance boundary measured natively per run)",
    "claim": "For every column definition (type, any usize string width, localizable/nullable/primary-key flags, "
             "category) that the real create_table accepts -- bit-field storable in the catalogue's Type cell and "
             "width within the natively measured acceptance boundary -- decoding the stored bit-field yields the same "
             "type, width and flags; all 26 category names survive as_str/parse. Kernel level; save/reopen is outside.",
    "note": "Trusted: Kani/CBMC; the premise that create_table refuses string widths above the measured boundary "
            "(native bisection on the real Package, refusal assumed upward-closed and spot-checked). Outside: "
            "_Validation row handling in create_table/open (range, foreign key, enumerations with ';'), 32-column "
            "lists, names, save/reopen through cfb.",
    "kani": [
        H("proofs::c06::c06_bitfield_roundtrip", timeout=300, symbolic="column type, string width (any usize), three flags, category class",
          bounds="loop-free kernel; width premise from native probe", functions=["column::Column::bitfield", "column::ColumnBuilder::with_bitfield",
                                                                              "column::ColumnType::from_bitfield", "column::Column::is_valid_value"]),
        H("proofs::c06::c06_category_name_roundtrip", timeout=600, symbolic="none (26 categories enumerated inside the harness)",
          bounds="unwind 30", functions=["category::Category::as_str", "category::Category::from_str", "category::Category::all"]),
    ],
    "bounds": "single column definition; all widths/flags",
    "outside": "validation-table round trip, enumerations, save/reopen",
    "assumptions": _KASSUME + ["create_table's acceptance boundary for string widths is measured natively on this run and assumed upward-closed"],
}

# ---------------------------------------------------------------- C08
PROPS["C08"] = {
    "level": "model_checking", "engine": "kani",
    "technique": "bounded model checking (Kani/CBMC): one incref/decref/create/remove step from an arbitrary pool state "
                 "satisfying the representation invariant (inductive step instead of histories); written images vs format",
    "claim": "From every pool state of the listed shapes whose reference counts are arbitrary u16 values satisfying "
             "'count 0 <=> empty text', one incref / decref / ValueRef create+remove changes exactly one count by exactly "
             "one, never wraps at 0xFFFF, clears text at zero, leaves every other entry alone and re-establishes the "
             "invariant; written row blocks and pool images equal the format description. Cross-table accounting and "
             "dropped tables are outside.",
    "note": "Trusted: Kani/CBMC; the invariant (if it were too weak the harness, not the code, is corrected). Outside: "
            "reference count == number of referring cells across tables, catalogue numbering, drop_table not releasing "
            "its rows' strings (package.rs:691-708; visible by reading, Package-level).",
    "kani": [H(_POOL + n, timeout=600, symbolic="reference counts (u16 each) of the pre-state; for decref the entry index",
               bounds="pool shape in the harness name (<=3 entries, texts from {'', 'a', 'b'}); unwind 6", functions=_F_POOL)
             for n in ["c08_incref_ab_a", "c08_incref_ab_b", "c08_incref_aa_a", "c08_incref_free_a_a", "c08_incref_a_free_b",
                       "c08_incref_a_b", "c08_incref_aba_a", "c08_decref_ab", "c08_decref_a_free_a", "c08_value_ref_pairing"]]
    + [H(_POOL + "c01_pool_image_ab", timeout=600, symbolic="reference counts of a 2-entry pool", bounds="unwind 8",
         functions=["stringpool::StringPool::write_pool", "stringpool::StringPool::write_data"]),
       H(_POOL + "c01_value_intern_empty", timeout=300, symbolic="pre-state reference counts", bounds="unwind 8",
         functions=["value::ValueRef::create"])]
    + [H(_ROWS + n, timeout=600, symbolic="all cells", bounds="2x2; unwind 6", functions=_F_ROWS) for n in _LAYOUT_Q[:2]],
    "bounds": "pools of <=3 entries, one operation",
    "outside": "cross-table reference accounting, catalogue tables, dropped tables",
    "assumptions": _KASSUME + ["representation invariant of reachable pool states: refcount == 0 <=> text == ''"],
}

# ---------------------------------------------------------------- C15
PROPS["C15"] = {
    "level": "model_checking", "engine": "kani",
    "technique": "bounded model checking (Kani/CBMC) of the generic writer kernels with the medium replaced by a "
                 "nondeterministic buffered writer: the fault schedule is a symbolic variable",
    "claim": "For write_rows, write_pool, write_data and PropertySet::write, instantiated with a writer that has the "
             "contract of cfb::Stream (buffering, flush may fail, Drop flushes and discards the error) and whose every "
             "write/flush call may fail nondeterministically: whenever the kernel returns Ok, every accepted byte has "
             "reached the medium once the by-value writer is gone; no schedule panics. Propagation through "
             "FinishImpl/Package::flush and the container is outside (confirmed once natively by kani/src/native/c15.rs).",
    "note": "Trusted: the stub writer's fidelity to cfb::Stream (cfb-0.10.0 stream.rs:210-248), Kani/CBMC. The claim "
            "applies while call sites hand the stream over by value. Outside: cfb itself, read/seek faults, finisher.",
    "kani": [
        H(_ROWS + "c15_write_rows_i16_i32_r1", timeout=600, symbolic="cell values; one failure bit per write/flush call", bounds="1 row x 2 columns; buffer 6 bytes; unwind 6", functions=_F_ROWS),
        H(_ROWS + "c15_write_rows_str_i16_r2", timeout=900, symbolic="cell values; one failure bit per write/flush call", bounds="2 rows x 2 columns; unwind 6", functions=_F_ROWS),
        H(_POOL + "c15_write_pool", timeout=900, symbolic="reference counts; failure bits", bounds="2 entries; unwind 8", functions=["stringpool::StringPool::write_pool"]),
        H(_POOL + "c15_write_data", timeout=900, symbolic="failure bits", bounds="2 entries; unwind 8", functions=["stringpool::StringPool::write_data"]),
        H(_PS + "c15_propset_write", timeout=1200, mem_gb=6, symbolic="property value; failure bits", bounds="1 property; unwind 10", functions=["propset::PropertySet::write"]),
    ],
    "bounds": "<=2x2 rows, 2 pool entries, 1 property; every schedule of failing calls",
    "outside": "FinishImpl::finish / Package::flush propagation, the cfb container, read and seek faults",
    "assumptions": _KASSUME + ["writer stub = contract of cfb::Stream; streams are passed by value (today's call sites)"],
}

# ---------------------------------------------------------------- C10
_C10_SHAPES = ["empty", "a", "ab", "abc", "abcd", "e1", "e1a", "e2", "e2a", "cjk", "cjk2a"]
PROPS["C10"] = {
    "level": "model_checking", "engine": "kani",
    "technique": "bounded model checking (Kani/CBMC) of PropertyValue::write vs. the size the offset table is computed "
                 "from (through the msi_verif hook), the code-page property for all 26 code pages, and C18's timestamp laws",
    "claim": "Per property value: the bytes PropertyValue::write emits equal the size PropertySet::write uses for the "
             "offset table, are a multiple of 4, and an LPSTR's length field equals its encoded bytes + 1 -- for all "
             "scalar values (symbolic) and for 11 concrete string shapes covering every residue of UTF-8 vs encoded "
             "length mod 4 under US-ASCII; set_codepage keeps property 1 and the cached code page in step for all 26 "
             "code pages (16-bit id stored signed). String contents are concrete shapes: honestly close to a table of "
             "runs decided by CBMC. Setter sequences, other code pages' encoders and save/reopen are outside.",
    "note": "Trusted: Kani/CBMC; the cfg-gated hook only forwards to the private functions. Outside: PropertySet::write's "
            "own loop over the BTreeMap (3 properties: > 10 min, measured), SummaryInfo setter sequences, template "
            "split/merge, encoding_rs code pages, save/reopen.",
    "kani": [H(_PS + "c10_size_law_str_" + n, timeout=300, symbolic="none (string shape concrete); the law is checked on the bytes produced",
               bounds="string shape %s; unwind 12" % n, functions=["propset::PropertyValue::write", "propset::PropertyValue::encoded_size_including_padding", "codepage::ascii_encode"])
             for n in _C10_SHAPES]
    + [H(_PS + "c10_size_law_scalars", timeout=300, symbolic="I1/I2/I4/FILETIME payloads", bounds="unwind 12",
         functions=["propset::PropertyValue::write", "propset::PropertyValue::encoded_size_including_padding", "timestamp::Timestamp::write_to"]),
       H(_PS + "c10_codepage_property", timeout=300, symbolic="code page id (any i32 that names a code page: all 26)", bounds="loop-free",
         functions=["propset::PropertySet::set_codepage", "propset::PropertySet::set", "codepage::CodePage::from_id", "codepage::CodePage::id"]),
       H(_PS + "c10_propset_ints_roundtrip", tier="thorough", timeout=2400, mem_gb=24, symbolic="I4/I2/FILETIME values; ids concrete",
         bounds="2 properties; unwind 10", functions=["propset::PropertySet::write", "propset::PropertySet::read"])],
    "bounds": "one property value at a time; 11 string shapes; all scalar payloads; all 26 code pages for property 1",
    "outside": "setter sequences, multi-property sets, template property, encoding_rs code pages, save/reopen",
    "assumptions": _KASSUME + ["hook feature msi_verif exposes PropertyValue::write / encoded_size_including_padding unchanged"],
}

# ---------------------------------------------------------------- C20 (Kani part; the M part is added below)
PROPS["C20"] = {
    "level": "model_checking", "engine": "kani",
    "technique": "bounded model checking (Kani/CBMC) of StringRef::write for every reference number",
    "claim": "For every reference number 1..0xFFFFFF: in two-byte mode StringRef::write returns an error exactly when the "
             "number exceeds 0xFFFF (never truncates, never panics) and otherwise round-trips; three-byte mode always "
             "writes 3 bytes. The other limits of the property (32 columns, 65,536 rows, 65,536th string, name lengths) "
             "are not decided here.",
    "note": "Two of five limits are within reach (reference width here; the reader's row limit is planned on engine M). "
            "create_table's column limit, incref's 65,536th-string panic and name-length limits need Package/cfb or "
            "65,535-entry pools.",
    "kani": [H(_CELLS + "c20_stringref_width", timeout=300, symbolic="reference number 1..0xFFFFFF, width flag", bounds="unwind 6",
               functions=["stringpool::StringRef::write", "stringpool::StringRef::read"]),
             H(_CELLS + "c01_cell_roundtrip_str_short", timeout=300, symbolic="string cell value, two-byte references", bounds="unwind 6", functions=_F_CELL)],
    "bounds": "all 24-bit reference numbers",
    "outside": "32-column limit, row-count limit on the write side, pool-size limit (panic in incref), name-length limits",
    "assumptions": _KASSUME,
}


# ---------------------------------------------------------------- C19
PROPS["C19"] = {
    "level": "model_checking", "engine": "mir-smt", "mir": True,
    "technique": "symbolic execution of the MIR of one activation of Ast::format_with_precedence (event mode) into "
                 "guarded token templates; z3/cvc5 decide, per (parent, slot, child) operator triple, that parentheses are "
                 "emitted wherever the property's precedence ladder needs them",
    "claim": "From the MIR of Ast::format_with_precedence and BinOp::precedence as compiled from the current tree: every "
             "node kind prints its own operator token between its operands in order with balanced parentheses, and for "
             "every (parent operator, operand slot, child operator) the child is parenthesised whenever the ladder OR < "
             "AND < NOT < comparison < | < ^ < & < shifts < + - < * / < unary - ~ (binary levels left-associative) "
             "requires it. That the printed text re-parses to the printed tree for trees of any height follows by the "
             "usual structural induction, which is the stated paper step. Statement printers (SELECT/INSERT/UPDATE/"
             "DELETE) loop over rows/columns and are outside.",
    "note": "Trusted: the MIR-to-SMT translator (validated on every run by rendering the nine expressions of the repo's "
            "own display test from the derived templates), the reference ladder in vlib/mir_engine.py, z3/cvc5. A "
            "counterexample triple is rebuilt through the public Expr constructors, printed by the real Display, "
            "re-read by an independent precedence parser and evaluated natively before it is reported. Outside: "
            "literal escaping, Display of Select/Join/Insert/Update/Delete.",
    "bounds": "one printer activation; parent precedence any i32; all 22 node kinds; all 20x2x22 operator triples",
    "outside": "statement-level Display, literals needing escapes, tokenisation issues such as '--'",
    "assumptions": ["write_str modelled as 'emit token, return Ok' (error early-returns do not change what is printed)",
                    "recursive calls modelled as 'emit child k at precedence p'", "Value's Display and String::as_str are opaque events"],
}

# ---------------------------------------------------------------- C14
PROPS["C14"] = {
    "level": "model_checking", "engine": "mir-smt+kani", "mir": True,
    "technique": "MIR of CodePage::encoding symbolically executed over a symbolic discriminant, z3/cvc5 compare the table "
                 "with the Windows reference; Kani/CBMC decide the id maps (all i32) and the US-ASCII codec laws",
    "claim": "For the project-code part of the code-page layer: identifier lookup and reverse lookup are mutually inverse "
             "for every i32 (Kani); every code page selects the encoding_rs table of the Windows code page its identifier "
             "names (MIR + SMT, symbolic discriminant; 28591 -> windows-1252 accepted); the US-ASCII codec obeys the "
             "per-character and concatenation laws for all strings of <=4 bytes (Kani). That encoding_rs's tables "
             "implement the Windows code pages, and the 1024-byte chunk loop around encoding_rs, are trusted / outside.",
    "note": "Trusted: encoding_rs's tables (per-character laws over 1.1M scalars x 26 pages are table lookups inside a "
            "dependency: one symbolic char through WINDOWS_1252 did not finish in 10 min), the reference table in "
            "vlib/mir_engine.py, translator, z3/cvc5, Kani/CBMC. Outside: CodePage::encode's chunk loop, decoding laws of "
            "the non-ASCII pages.",
    "kani": [
        H("proofs::c14::c14_id_inverse", timeout=300, symbolic="any i32 identifier; any of the 26 code pages", bounds="loop-free",
          functions=["codepage::CodePage::from_id", "codepage::CodePage::id"]),
        H("proofs::c14::c14_ascii_laws_len1", timeout=600, symbolic="1 byte of valid UTF-8", bounds="strings of 1 byte; unwind 8",
          functions=["codepage::ascii_encode", "codepage::ascii_decode", "codepage::CodePage::encode", "codepage::CodePage::decode"]),
        H("proofs::c14::c14_ascii_laws_len2", timeout=900, symbolic="2 bytes of valid UTF-8 (two ASCII or one 2-byte char)", bounds="strings of 2 bytes; unwind 8",
          functions=["codepage::ascii_encode", "codepage::ascii_decode"]),
        H("proofs::c14::c14_ascii_decode_total", timeout=600, symbolic="3 arbitrary bytes", bounds="3 bytes; unwind 8", functions=["codepage::ascii_decode"]),
    ],
    "bounds": "all i32 ids; 26 code pages; US-ASCII strings up to 2 bytes (thorough: 3)",
    "outside": "encoding_rs tables, the chunked encoder loop, strings across the 1024-byte buffer boundary",
    "assumptions": _KASSUME,
}
