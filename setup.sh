#!/bin/bash
# Offline setup: nothing to fetch or install; verify the pre-installed tools the
# checks need are present.  Every check builds its own scratch copy of the
# harness crate from /repo's current working tree.
set -e
export CARGO_NET_OFFLINE=true
cd "$(dirname "$0")"
cargo kani --version
cbmc --version
z3 --version
z3-new --version
cvc5 --version | head -1
rustup toolchain list | grep -q nightly
python3 -c "import json; json.load(open('MANIFEST.json')); print('manifest ok')"
mkdir -p .work evidence
