//! Premises measured natively by the driver on every run and written into the
//! scratch copy of this crate before it is built (DESIGN.md section 1.1).
//! This committed default applies no premise.

/// Largest string-column width that the real `Package::create_table` accepts
/// (native bisection, refusal assumed upward-closed).
pub const C06_W_ACC: usize = usize::MAX;
