//! Harness crate: this crate *is* rust-msi's `internal` module tree, compiled
//! from /repo's current working tree (the `#[path]` below), plus Kani proof
//! harnesses that can see its `pub(crate)` items.  No source hooks needed.
#![allow(dead_code, unused_imports, unused_macros, clippy::all)]

#[path = "/repo/src/internal/mod.rs"]
mod internal;

#[cfg(all(test, not(kani)))]
mod native;

mod gen_premises;

#[cfg(kani)]
mod util;
#[cfg(kani)]
mod proofs;
