//! Shared helpers for the proof harnesses.
use crate::internal::column::Column;
use crate::internal::table::{Row, Table};
use crate::internal::value::Value;
use std::rc::Rc;

/// The concrete string domain used wherever a harness needs string *values*
/// (symbolic string contents are measured out of reach; DESIGN.md section 0).
pub const STRS: [&str; 3] = ["", "a", "b"];

/// Number of value *kinds* a harness enumerates concretely.
pub const KINDS: usize = 5;

/// A `Value` of CONCRETE kind `k`: 0 Null, 1 Int(any i32), 2.. Str(STRS[k-2]).
/// Kinds are enumerated concretely by the harness; only integer payloads are
/// symbolic.  A symbolic kind (even just Null-or-Int) leaves the enum
/// discriminant symbolic, and CBMC then also explores the string arms of the
/// operator under test with garbage pointers (measured: `+` on a symbolic
/// Null|Int pair runs out of memory after 320 s; concrete kinds take seconds).
pub fn value_of_kind(k: usize) -> Value {
    match k {
        0 => Value::Null,
        1 => Value::Int(kani::any()),
        2 => Value::Str(String::from(STRS[0])),
        3 => Value::Str(String::from(STRS[1])),
        _ => Value::Str(String::from(STRS[2])),
    }
}

pub fn any_str_value() -> Value {
    let k: u8 = kani::any();
    kani::assume(k < 3);
    match k {
        0 => Value::Str(String::from(STRS[0])),
        1 => Value::Str(String::from(STRS[1])),
        _ => Value::Str(String::from(STRS[2])),
    }
}

/// An anonymous two-column table (columns "A" and "B") holding `a`, `b`.
pub fn row_ab(a: Value, b: Value) -> Row {
    let table: Rc<Table> = Table::new(
        String::from("T"),
        vec![
            Column::build("A").nullable().int32(),
            Column::build("B").nullable().int32(),
        ],
        false,
    );
    Row::new(table, vec![a, b])
}

/// A one-column table row (column "A").
pub fn row_a(a: Value) -> Row {
    let table: Rc<Table> = Table::new(
        String::from("T"),
        vec![Column::build("A").nullable().int32()],
        false,
    );
    Row::new(table, vec![a])
}

/// Fixed-capacity in-memory writer (no heap growth): a `Write` sink whose
/// contents can be inspected afterwards.
pub struct FixedSink<const N: usize> {
    pub buf: [u8; N],
    pub len: usize,
}

impl<const N: usize> FixedSink<N> {
    pub fn new() -> Self {
        FixedSink { buf: [0u8; N], len: 0 }
    }
}

impl<const N: usize> std::io::Write for FixedSink<N> {
    fn write(&mut self, data: &[u8]) -> std::io::Result<usize> {
        let mut i = 0;
        while i < data.len() {
            assert!(self.len < N, "FixedSink overflow: harness sink too small");
            self.buf[self.len] = data[i];
            self.len += 1;
            i += 1;
        }
        Ok(data.len())
    }
    fn write_all(&mut self, data: &[u8]) -> std::io::Result<()> {
        match self.write(data) {
            Ok(_) => Ok(()),
            Err(e) => Err(e),
        }
    }
    fn flush(&mut self) -> std::io::Result<()> {
        Ok(())
    }
}

/// Stub for `format!`'s back end: error paths build their messages with
/// `format!`; the text is never the subject, and real formatting explodes in
/// CBMC.  Used with `#[kani::stub(std::fmt::format, crate::util::stub_format)]`.
pub fn stub_format(_args: core::fmt::Arguments<'_>) -> String {
    String::new()
}

/// Forget an `io::Result`'s error (its drop glue dispatches through a
/// `dyn Error` vtable, which explodes symbolically) and report Ok/Err.
pub fn is_ok_forget<T>(r: std::io::Result<T>) -> Option<T> {
    match r {
        Ok(v) => Some(v),
        Err(e) => {
            std::mem::forget(e);
            None
        }
    }
}

// ---------------------------------------------------------------------------
// C15: the medium as a nondeterministic stub with the contract of cfb::Stream
// (cfb-0.10.0 src/internal/stream.rs): `write` only buffers (flushing first
// when the buffer is full), `flush` pushes the buffer to the medium and may
// fail, `Drop` flushes and DISCARDS the result.  Every call may fail
// (symbolic fault schedule: transient and persistent faults are both covered
// because each call draws its own nondeterministic bit).
// ---------------------------------------------------------------------------

pub struct Medium {
    /// bytes the writer acknowledged with Ok(..)
    pub accepted: usize,
    /// bytes that durably reached the medium
    pub committed: usize,
    /// a deferred flush failed and its error was discarded
    pub silent_loss: bool,
    pub write_calls: usize,
    pub flush_calls: usize,
}

impl Medium {
    pub fn new() -> Medium {
        Medium { accepted: 0, committed: 0, silent_loss: false, write_calls: 0, flush_calls: 0 }
    }
}

pub const FB_CAP: usize = 6;

pub struct FaultyBuffered<'a> {
    pub medium: &'a mut Medium,
    pub buffered: usize,
}

impl<'a> FaultyBuffered<'a> {
    pub fn new(medium: &'a mut Medium) -> FaultyBuffered<'a> {
        FaultyBuffered { medium, buffered: 0 }
    }

    fn push_buffer(&mut self) -> bool {
        if self.buffered == 0 {
            return true;
        }
        let fail: bool = kani::any();
        if fail {
            false
        } else {
            self.medium.committed += self.buffered;
            self.buffered = 0;
            true
        }
    }
}

impl<'a> std::io::Write for FaultyBuffered<'a> {
    fn write(&mut self, data: &[u8]) -> std::io::Result<usize> {
        self.medium.write_calls += 1;
        if self.buffered + data.len() > FB_CAP {
            if !self.push_buffer() {
                return Err(std::io::Error::from(std::io::ErrorKind::Other));
            }
        }
        let fail: bool = kani::any();
        if fail {
            return Err(std::io::Error::from(std::io::ErrorKind::Other));
        }
        self.buffered += data.len();
        self.medium.accepted += data.len();
        Ok(data.len())
    }

    // `write` always takes the whole slice, so the default `write_all` loop
    // (which inspects the bit-packed io::Error for `Interrupted`, something
    // CBMC cannot reason about cheaply) is replaced by the equivalent direct call.
    fn write_all(&mut self, data: &[u8]) -> std::io::Result<()> {
        match self.write(data) {
            Ok(_) => Ok(()),
            Err(e) => Err(e),
        }
    }

    fn flush(&mut self) -> std::io::Result<()> {
        self.medium.flush_calls += 1;
        if self.push_buffer() {
            Ok(())
        } else {
            Err(std::io::Error::from(std::io::ErrorKind::Other))
        }
    }
}

impl<'a> Drop for FaultyBuffered<'a> {
    fn drop(&mut self) {
        // like cfb::Stream: flush, ignore the result
        if !self.push_buffer() {
            self.medium.silent_loss = true;
        }
    }
}

/// Fixed-array reader that copies byte by byte (so CBMC keeps concrete bytes
/// concrete and symbolic bytes individually symbolic; a `&[u8]` reader goes
/// through memcpy, after which even the constant bytes of a partly symbolic
/// buffer are no longer constant-propagated -- measured: 900 s vs seconds).
pub struct ArrReader<const K: usize> {
    pub buf: [u8; K],
    pub len: usize,
    pub pos: usize,
}

impl<const K: usize> ArrReader<K> {
    pub fn new(buf: [u8; K], len: usize) -> Self {
        ArrReader { buf, len, pos: 0 }
    }
    pub fn remaining(&self) -> usize {
        self.len - self.pos
    }
}

impl<const K: usize> std::io::Read for ArrReader<K> {
    fn read(&mut self, out: &mut [u8]) -> std::io::Result<usize> {
        let mut i = 0;
        while i < out.len() && self.pos < self.len {
            out[i] = self.buf[self.pos];
            self.pos += 1;
            i += 1;
        }
        Ok(i)
    }
    fn read_exact(&mut self, out: &mut [u8]) -> std::io::Result<()> {
        if self.len - self.pos < out.len() {
            self.pos = self.len;
            return Err(std::io::Error::from(std::io::ErrorKind::UnexpectedEof));
        }
        let mut i = 0;
        while i < out.len() {
            out[i] = self.buf[self.pos];
            self.pos += 1;
            i += 1;
        }
        Ok(())
    }
}

impl<const K: usize> std::io::Seek for ArrReader<K> {
    fn seek(&mut self, from: std::io::SeekFrom) -> std::io::Result<u64> {
        match from {
            std::io::SeekFrom::Start(p) => self.pos = if (p as usize) < self.len { p as usize } else { self.len },
            std::io::SeekFrom::End(_) => self.pos = self.len,
            std::io::SeekFrom::Current(d) => self.pos = (self.pos as i64 + d) as usize,
        }
        Ok(self.pos as u64)
    }
}
