//! Shared helpers for the proof harnesses.
use crate::internal::column::Column;
use crate::internal::table::{Row, Table};
use crate::internal::value::Value;
use std::rc::Rc;

/// The concrete string domain used wherever a harness needs string *values*
/// (symbolic string contents are measured out of reach; DESIGN.md section 0).
pub const STRS: [&str; 3] = ["", "a", "b"];

/// Number of value *kind classes* a harness enumerates concretely.
pub const KINDS: usize = 4;

/// A `Value` of CONCRETE kind class `k`:
///   0 => Null or Int(any i32), chosen symbolically (neither owns heap memory)
///   1.. => Str(STRS[k-1]) -- a concrete string.
/// Kind classes are enumerated concretely by the harness: a symbolic choice
/// between heap-owning and heap-free variants makes heap shapes symbolic,
/// which CBMC cannot prune (measured: > 15 min for one operator).
pub fn value_of_kind(k: usize) -> Value {
    match k {
        0 => {
            if kani::any() {
                Value::Null
            } else {
                Value::Int(kani::any())
            }
        }
        1 => Value::Str(String::from(STRS[0])),
        2 => Value::Str(String::from(STRS[1])),
        _ => Value::Str(String::from(STRS[2])),
    }
}

pub fn any_str_value() -> Value {
    let k: u8 = kani::any();
    kani::assume(k < 3);
    match k {
        0 => Value::Str(String::from(STRS[0])),
        1 => Value::Str(String::from(STRS[1])),
        _ => Value::Str(String::from(STRS[2])),
    }
}

/// An anonymous two-column table (columns "A" and "B") holding `a`, `b`.
pub fn row_ab(a: Value, b: Value) -> Row {
    let table: Rc<Table> = Table::new(
        String::from("T"),
        vec![
            Column::build("A").nullable().int32(),
            Column::build("B").nullable().int32(),
        ],
        false,
    );
    Row::new(table, vec![a, b])
}

/// A one-column table row (column "A").
pub fn row_a(a: Value) -> Row {
    let table: Rc<Table> = Table::new(
        String::from("T"),
        vec![Column::build("A").nullable().int32()],
        false,
    );
    Row::new(table, vec![a])
}

/// Fixed-capacity in-memory writer (no heap growth): a `Write` sink whose
/// contents can be inspected afterwards.
pub struct FixedSink<const N: usize> {
    pub buf: [u8; N],
    pub len: usize,
}

impl<const N: usize> FixedSink<N> {
    pub fn new() -> Self {
        FixedSink { buf: [0u8; N], len: 0 }
    }
}

impl<const N: usize> std::io::Write for FixedSink<N> {
    fn write(&mut self, data: &[u8]) -> std::io::Result<usize> {
        let mut i = 0;
        while i < data.len() {
            assert!(self.len < N, "FixedSink overflow: harness sink too small");
            self.buf[self.len] = data[i];
            self.len += 1;
            i += 1;
        }
        Ok(data.len())
    }
    fn flush(&mut self) -> std::io::Result<()> {
        Ok(())
    }
}
