//! C07 -- validators vs. reference predicates written from the documented
//! grammar.  Strings are `[u8; L]` symbolic ASCII bytes, L concrete per
//! instance; where the documentation is silent (a leading '+', "-32768" /
//! "-2147483648", i.e. what Rust's `parse` additionally accepts) the reference
//! leaves the verdict unconstrained, so no alarm can come from that corner.
use crate::internal::category::Category;
use crate::internal::column::Column;
use crate::internal::value::Value;
use crate::util::*;

fn ascii_str<const L: usize>(b: &[u8; L]) -> &str {
    let mut i = 0;
    while i < L {
        kani::assume(b[i] < 0x80);
        i += 1;
    }
    // all bytes are ASCII, hence valid UTF-8
    unsafe { std::str::from_utf8_unchecked(&b[..]) }
}

fn is_alpha(c: u8) -> bool {
    (c >= b'a' && c <= b'z') || (c >= b'A' && c <= b'Z')
}
fn is_digit(c: u8) -> bool {
    c >= b'0' && c <= b'9'
}

fn ref_identifier(b: &[u8]) -> bool {
    if b.is_empty() || !(is_alpha(b[0]) || b[0] == b'_') {
        return false;
    }
    let mut i = 1;
    while i < b.len() {
        if !(is_alpha(b[i]) || is_digit(b[i]) || b[i] == b'_' || b[i] == b'.') {
            return false;
        }
        i += 1;
    }
    true
}

/// Some(valid) when the documentation decides, None when it is silent.
fn ref_integer(b: &[u8], min: i64, max: i64) -> Option<bool> {
    if b.is_empty() {
        return Some(false);
    }
    let (neg, start) = match b[0] {
        b'-' => (true, 1),
        b'+' => return None, // undocumented: accepted by Rust's parse
        _ => (false, 0),
    };
    if start == b.len() {
        return Some(false);
    }
    let mut v: i64 = 0;
    let mut i = start;
    while i < b.len() {
        if !is_digit(b[i]) {
            return Some(false);
        }
        v = v * 10 + (b[i] - b'0') as i64;
        i += 1;
    }
    let v = if neg { -v } else { v };
    if v == min {
        return None; // the most negative value is reserved for null in the cell encoding: undocumented for the text form
    }
    Some(v > min && v <= max)
}

fn ref_u16_part(b: &[u8]) -> Option<bool> {
    if b.is_empty() {
        return Some(false);
    }
    if b[0] == b'+' {
        return None;
    }
    let mut v: u32 = 0;
    let mut i = 0;
    while i < b.len() {
        if !is_digit(b[i]) {
            return Some(false);
        }
        v = v * 10 + (b[i] - b'0') as u32;
        if v > 0xffff_ffff / 20 {
            return Some(false);
        }
        i += 1;
    }
    Some(v <= 65535)
}

/// split `b` at `sep`, every part must be a u16; at most `max_parts` parts.
fn ref_u16_list(b: &[u8], sep: u8, max_parts: usize) -> Option<bool> {
    let mut parts = 0;
    let mut start = 0;
    let mut unknown = false;
    let mut i = 0;
    while i <= b.len() {
        if i == b.len() || b[i] == sep {
            parts += 1;
            match ref_u16_part(&b[start..i]) {
                Some(true) => {}
                Some(false) => return Some(false),
                None => unknown = true,
            }
            start = i + 1;
        }
        i += 1;
    }
    if parts > max_parts {
        return Some(false);
    }
    if unknown {
        None
    } else {
        Some(true)
    }
}

fn ref_cabinet(b: &[u8]) -> bool {
    if !b.is_empty() && b[0] == b'#' {
        return ref_identifier(&b[1..]);
    }
    // 8.3: the extension is what follows the LAST dot
    let mut last_dot: Option<usize> = None;
    let mut i = 0;
    while i < b.len() {
        if b[i] == b'.' {
            last_dot = Some(i);
        }
        i += 1;
    }
    match last_dot {
        None => !b.is_empty() && b.len() <= 8,
        Some(d) => d >= 1 && d <= 8 && b.len() - d - 1 <= 3,
    }
}

fn check(cat: Category, s: &str, want: Option<bool>) {
    let got = cat.validate(s);
    if let Some(w) = want {
        assert!(got == w, "C07: category validator disagrees with the documented grammar");
    }
    kani::cover!(got);
    kani::cover!(!got);
}

macro_rules! cat_harness {
    ($name:ident, $len:expr, $unwind:expr, $body:expr) => {
        #[kani::proof]
        #[kani::unwind($unwind)]
        #[kani::stub(std::fmt::format, crate::util::stub_format)]
        fn $name() {
            let b: [u8; $len] = kani::any();
            let s = ascii_str(&b);
            let f: fn(&[u8], &str) = $body;
            f(&b[..], s);
        }
    };
}

cat_harness!(c07_identifier_len1, 1, 6, |b, s| check(Category::Identifier, s, Some(ref_identifier(b))));
cat_harness!(c07_identifier_len3, 3, 8, |b, s| check(Category::Identifier, s, Some(ref_identifier(b))));
cat_harness!(c07_property_len3, 3, 8, |b, s| {
    let want = if b[0] == b'%' { ref_identifier(&b[1..]) } else { ref_identifier(b) };
    check(Category::Property, s, Some(want))
});
cat_harness!(c07_uppercase_len3, 3, 8, |b, s| {
    let mut any_lower = false;
    let mut i = 0;
    while i < b.len() {
        if b[i] >= b'a' && b[i] <= b'z' {
            any_lower = true;
        }
        i += 1;
    }
    check(Category::UpperCase, s, Some(!any_lower))
});
cat_harness!(c07_lowercase_len3, 3, 8, |b, s| {
    let mut any_upper = false;
    let mut i = 0;
    while i < b.len() {
        if b[i] >= b'A' && b[i] <= b'Z' {
            any_upper = true;
        }
        i += 1;
    }
    check(Category::LowerCase, s, Some(!any_upper))
});
cat_harness!(c07_integer_len2, 2, 8, |b, s| check(Category::Integer, s, ref_integer(b, -32768, 32767)));
cat_harness!(c07_integer_len5, 5, 10, |b, s| check(Category::Integer, s, ref_integer(b, -32768, 32767)));
cat_harness!(c07_integer_len6, 6, 12, |b, s| check(Category::Integer, s, ref_integer(b, -32768, 32767)));
cat_harness!(c07_doubleinteger_len3, 3, 8, |b, s| check(Category::DoubleInteger, s, ref_integer(b, -2147483648, 2147483647)));
cat_harness!(c07_doubleinteger_len10, 10, 16, |b, s| {
    // digits-and-sign alphabet keeps the 10-byte instance tractable
    let mut i = 0;
    while i < b.len() {
        kani::assume(is_digit(b[i]) || b[i] == b'-' || b[i] == b'+' || b[i] == b'a');
        i += 1;
    }
    check(Category::DoubleInteger, s, ref_integer(b, -2147483648, 2147483647))
});
cat_harness!(c07_cabinet_len3, 3, 10, |b, s| check(Category::Cabinet, s, Some(ref_cabinet(b))));
cat_harness!(c07_cabinet_len13, 13, 20, |b, s| {
    let mut i = 0;
    while i < b.len() {
        kani::assume(b[i] == b'a' || b[i] == b'.' || b[i] == b'#');
        i += 1;
    }
    check(Category::Cabinet, s, Some(ref_cabinet(b)))
});

/// Totality: every category answers for every ASCII string of 2 bytes and for
/// strings of exactly the GUID length (the `&string[1..37]` slice) -- no panic.
#[kani::proof]
#[kani::unwind(30)]
#[kani::stub(std::fmt::format, crate::util::stub_format)]
fn c07_total_len2() {
    let b: [u8; 2] = kani::any();
    let s = ascii_str(&b);
    let all = Category::all();
    let mut i = 0;
    while i < all.len() {
        let _ = all[i].validate(s);
        i += 1;
    }
    kani::cover!(true);
    std::mem::forget(all);
}

#[kani::proof]
#[kani::unwind(4)]
#[kani::stub(std::fmt::format, crate::util::stub_format)]
fn c07_guid_total_short() {
    // lengths other than 38 are rejected before any slicing
    let b: [u8; 3] = kani::any();
    let s = ascii_str(&b);
    assert!(!Category::Guid.validate(s), "C07: a 3-byte string accepted as a GUID");
    kani::cover!(true);
}

/// The value gate for integers and nulls: full 32-bit value, symbolic column.
#[kani::proof]
#[kani::unwind(4)]
#[kani::stub(std::fmt::format, crate::util::stub_format)]
fn c07_int_gate() {
    let k: u8 = kani::any();
    kani::assume(k < 3);
    let nullable: bool = kani::any();
    let ranged: bool = kani::any();
    let min: i32 = kani::any();
    let max: i32 = kani::any();
    let mut b = Column::build("X");
    if nullable {
        b = b.nullable();
    }
    if ranged {
        b = b.range(min, max);
    }
    let col = match k {
        0 => b.int16(),
        1 => b.int32(),
        _ => b.string(kani::any()),
    };
    let is_null: bool = kani::any();
    let n: i32 = kani::any();
    let v = if is_null { Value::Null } else { Value::Int(n) };
    let got = col.is_valid_value(&v);
    let want = if is_null {
        nullable
    } else {
        let in_range = !ranged || (n >= min && n <= max);
        let storable = match k {
            0 => n >= -32767 && n <= 32767,
            1 => n > i32::MIN,
            _ => false,
        };
        in_range && storable
    };
    assert!(got == want, "C07: is_valid_value disagrees with the documented validity of an integer/null value");
    kani::cover!(got && !is_null && k == 0);
    kani::cover!(!got && !is_null && k == 1);
    std::mem::forget(col);
}

/// The value gate for strings: declared width in characters and enumeration.
#[kani::proof]
#[kani::unwind(8)]
#[kani::stub(std::fmt::format, crate::util::stub_format)]
fn c07_str_gate() {
    let b: [u8; 2] = kani::any();
    let s = ascii_str(&b);
    let max_len: usize = kani::any();
    let col = Column::build("X").string(max_len);
    let v = Value::Str(String::from(s));
    assert!(col.is_valid_value(&v) == (max_len == 0 || 2 <= max_len), "C07: declared string width not enforced in characters");
    let icol = Column::build("X").int32();
    assert!(!icol.is_valid_value(&v), "C07: a string accepted by an integer column");
    let ecol = Column::build("X").enum_values(&["ab", "cd"]).string(0);
    let want = (b[0] == b'a' && b[1] == b'b') || (b[0] == b'c' && b[1] == b'd');
    assert!(ecol.is_valid_value(&v) == want, "C07: enumeration not enforced");
    kani::cover!(want);
    std::mem::forget(col);
    std::mem::forget(icol);
    std::mem::forget(ecol);
    std::mem::forget(v);
}

// Version / Language: `str::split` + `parse::<u16>` run CBMC out of memory at 24 GB on three
// symbolic bytes and even on a table of ten concrete strings (measured twice); both grammars are
// outside the claim (DESIGN.md section 6).
