#[cfg(feature = "p_c06")]
mod c06;
#[cfg(feature = "p_c07")]
mod c07;
#[cfg(feature = "p_c13")]
mod c13;
#[cfg(feature = "p_c14")]
mod c14;
#[cfg(feature = "p_c17")]
mod c17;
#[cfg(feature = "p_cells")]
mod cells;
#[cfg(feature = "p_rows")]
mod rows;
#[cfg(feature = "p_pool")]
mod pool;
#[cfg(feature = "p_propset")]
mod propset;
