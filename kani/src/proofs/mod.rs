mod c13;
