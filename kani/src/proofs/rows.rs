//! `Table::write_rows`: (C01/C08) the row block it produces equals an
//! independent column-major encoder written from the format description;
//! (C15) under a symbolic fault schedule of the medium, `Ok` means every byte
//! reached the medium.
use crate::internal::column::{Column, ColumnType};
use crate::internal::stringpool::StringRef;
use crate::internal::table::Table;
use crate::internal::value::ValueRef;
use crate::util::*;
use std::rc::Rc;

fn sref(n: u32) -> StringRef {
    let eb = [(n & 0xff) as u8, ((n >> 8) & 0xff) as u8, ((n >> 16) & 0xff) as u8];
    let mut er: &[u8] = &eb;
    match is_ok_forget(StringRef::read(&mut er, true)) {
        Some(Some(sr)) => sr,
        _ => {
            kani::assume(false);
            unreachable!()
        }
    }
}

fn column_of(k: u8, name: &str) -> Column {
    match k {
        0 => Column::build(name).nullable().int16(),
        1 => Column::build(name).nullable().int32(),
        _ => Column::build(name).nullable().string(0),
    }
}

fn width_of(k: u8, long: bool) -> usize {
    match k {
        0 => 2,
        1 => 4,
        _ => {
            if long {
                3
            } else {
                2
            }
        }
    }
}

/// A symbolic valid cell for column kind k, and its encoding per the format
/// description (little-endian; 0 = null; integers offset-binary).
fn any_cell(k: u8, long: bool) -> (ValueRef, [u8; 4]) {
    let null: bool = kani::any();
    if null {
        return (ValueRef::Null, [0; 4]);
    }
    match k {
        0 => {
            let n: i32 = kani::any();
            kani::assume(n > -32768 && n <= 32767);
            let x = (n + 0x8000) as u32;
            (ValueRef::Int(n), [(x & 0xff) as u8, (x >> 8) as u8, 0, 0])
        }
        1 => {
            let n: i32 = kani::any();
            kani::assume(n > i32::MIN);
            let x = (n as i64 + 0x8000_0000i64) as u32;
            (ValueRef::Int(n), [(x & 0xff) as u8, ((x >> 8) & 0xff) as u8, ((x >> 16) & 0xff) as u8, (x >> 24) as u8])
        }
        _ => {
            let n: u32 = kani::any();
            kani::assume(n >= 1 && n <= if long { 0xff_ffff } else { 0xffff });
            (ValueRef::Str(sref(n)), [(n & 0xff) as u8, ((n >> 8) & 0xff) as u8, ((n >> 16) & 0xff) as u8, 0])
        }
    }
}

const MAXC: usize = 2;
const MAXR: usize = 2;

fn build(types: &[u8], nrows: usize, long: bool) -> (Rc<Table>, Vec<Vec<ValueRef>>, [[[u8; 4]; MAXC]; MAXR]) {
    let names = ["A", "B"];
    let mut cols = Vec::with_capacity(types.len());
    let mut c = 0;
    while c < types.len() {
        cols.push(column_of(types[c], names[c]));
        c += 1;
    }
    let table = Table::new(String::from("T"), cols, long);
    let mut enc = [[[0u8; 4]; MAXC]; MAXR];
    let mut rows: Vec<Vec<ValueRef>> = Vec::with_capacity(nrows);
    let mut r = 0;
    while r < nrows {
        let mut row = Vec::with_capacity(types.len());
        let mut c = 0;
        while c < types.len() {
            let (v, e) = any_cell(types[c], long);
            row.push(v);
            enc[r][c] = e;
            c += 1;
        }
        rows.push(row);
        r += 1;
    }
    (table, rows, enc)
}

fn layout(types: &[u8], nrows: usize, long: bool) {
    let (table, rows, enc) = build(types, nrows, long);
    let mut sink = FixedSink::<16>::new();
    let ok = is_ok_forget(table.write_rows(&mut sink, rows));
    assert!(ok.is_some(), "C01: write_rows failed on valid rows");
    // independent column-major reference encoder
    let mut off = 0usize;
    let mut c = 0;
    while c < types.len() {
        let w = width_of(types[c], long);
        let mut r = 0;
        while r < nrows {
            let mut b = 0;
            while b < w {
                assert!(sink.buf[off] == enc[r][c][b], "C01/C08: row block differs from the column-major format description");
                off += 1;
                b += 1;
            }
            r += 1;
        }
        c += 1;
    }
    assert!(sink.len == off, "C08: table stream is not a whole number of rows of the column widths");
    kani::cover!(true);
    std::mem::forget(table);
}

macro_rules! layout_harness {
    ($name:ident, $types:expr, $rows:expr, $long:expr) => {
        #[kani::proof]
        #[kani::unwind(6)]
        #[kani::stub(std::fmt::format, crate::util::stub_format)]
        fn $name() {
            layout(&$types, $rows, $long);
        }
    };
}

layout_harness!(c01_layout_i16_str_r2_short, [0u8, 2u8], 2, false);
layout_harness!(c01_layout_i32_str_r2_long, [1u8, 2u8], 2, true);
layout_harness!(c01_layout_str_i16_r2_long, [2u8, 0u8], 2, true);
layout_harness!(c01_layout_i32_i16_r2, [1u8, 0u8], 2, false);
layout_harness!(c01_layout_str_str_r2_short, [2u8, 2u8], 2, false);
layout_harness!(c01_layout_str_i32_r1_short, [2u8, 1u8], 1, false);
layout_harness!(c01_layout_i16_r2, [0u8], 2, false);
layout_harness!(c01_layout_i32_r2, [1u8], 2, false);
layout_harness!(c01_layout_str_r2_long, [2u8], 2, true);
layout_harness!(c01_layout_i16_i16_r2, [0u8, 0u8], 2, false);
layout_harness!(c01_layout_i32_i32_r2, [1u8, 1u8], 2, false);
layout_harness!(c01_layout_i16_i32_r1, [0u8, 1u8], 1, true);

/// C15: `write_rows` into the faulty buffered medium.  If it returns Ok then,
/// once the writer is gone (it is handed over BY VALUE, as the real call
/// sites do), every accepted byte has reached the medium; no schedule panics.
fn faulty_rows(types: &[u8], nrows: usize, long: bool) {
    let (table, rows, _enc) = build(types, nrows, long);
    let mut medium = Medium::new();
    let ok = {
        let w = FaultyBuffered::new(&mut medium);
        is_ok_forget(table.write_rows(w, rows)).is_some()
    };
    if ok {
        assert!(!medium.silent_loss, "C15: write_rows returned Ok although the deferred flush of its writer failed");
        assert!(medium.committed == medium.accepted, "C15: write_rows returned Ok with bytes that never reached the medium");
    }
    kani::cover!(ok);
    kani::cover!(!ok);
    std::mem::forget(table);
}

#[kani::proof]
#[kani::unwind(6)]
#[kani::stub(std::fmt::format, crate::util::stub_format)]
fn c15_write_rows_i16_i32_r1() {
    faulty_rows(&[0u8, 1u8], 1, false);
}

#[kani::proof]
#[kani::unwind(6)]
#[kani::stub(std::fmt::format, crate::util::stub_format)]
fn c15_write_rows_str_i16_r2() {
    faulty_rows(&[2u8, 0u8], 2, true);
}
