//! Cell / string-reference / bit-field codec kernels, shared by
//! C01 (write -> read identity), C02 (decoders vs. an independent format
//! description), C09 (totality on arbitrary bytes) and C20 (reference width
//! limit).
use crate::internal::column::{Column, ColumnType};
use crate::internal::stringpool::StringRef;
use crate::internal::value::{Value, ValueRef};
use crate::util::*;

/// An arbitrary string reference 1..=0xFF_FFFF (constructed through the real
/// reader, the only constructor visible to the crate).
fn any_string_ref() -> StringRef {
    let b: [u8; 3] = kani::any();
    let mut rd: &[u8] = &b;
    let r = is_ok_forget(StringRef::read(&mut rd, true));
    match r {
        Some(Some(sr)) => sr,
        _ => {
            kani::assume(false);
            unreachable!()
        }
    }
}

fn coltype_of(k: u8) -> ColumnType {
    match k {
        0 => ColumnType::Int16,
        1 => ColumnType::Int32,
        _ => ColumnType::Str(kani::any()),
    }
}

fn roundtrip(k: u8, long: bool) {
    let ct = coltype_of(k);
    // a value valid for the column type (what Insert/Update let through)
    let v: ValueRef = match k {
        0 => {
            if kani::any() {
                ValueRef::Null
            } else {
                let n: i32 = kani::any();
                kani::assume(n > -32768 && n <= 32767);
                ValueRef::Int(n)
            }
        }
        1 => {
            if kani::any() {
                ValueRef::Null
            } else {
                let n: i32 = kani::any();
                kani::assume(n > i32::MIN);
                ValueRef::Int(n)
            }
        }
        _ => {
            if kani::any() {
                ValueRef::Null
            } else {
                let sr = any_string_ref();
                if !long {
                    kani::assume(sr.number() <= 0xFFFF);
                }
                ValueRef::Str(sr)
            }
        }
    };
    let mut sink = FixedSink::<4>::new();
    let w = is_ok_forget(ct.write_value(&mut sink, v, long));
    assert!(w.is_some(), "C01: writing a valid cell value failed");
    assert!(sink.len as u64 == ct.width(long), "C01/C08: bytes written differ from the column width");
    let mut rd: &[u8] = &sink.buf[..sink.len];
    let back = is_ok_forget(ct.read_value(&mut rd, long));
    match back {
        Some(b) => assert!(b == v, "C01: cell value read back differs from the value written"),
        None => panic!("C01: reading back a written cell failed"),
    }
    assert!(rd.len() == 0, "C01: reader did not consume the whole cell");
    kani::cover!(matches!(v, ValueRef::Null));
    kani::cover!(!matches!(v, ValueRef::Null));
}

#[kani::proof]
#[kani::unwind(6)]
#[kani::stub(std::fmt::format, crate::util::stub_format)]
fn c01_cell_roundtrip_int16() {
    roundtrip(0, kani::any());
}

#[kani::proof]
#[kani::unwind(6)]
#[kani::stub(std::fmt::format, crate::util::stub_format)]
fn c01_cell_roundtrip_int32() {
    roundtrip(1, kani::any());
}

#[kani::proof]
#[kani::unwind(6)]
#[kani::stub(std::fmt::format, crate::util::stub_format)]
fn c01_cell_roundtrip_str_short() {
    roundtrip(2, false);
}

#[kani::proof]
#[kani::unwind(6)]
#[kani::stub(std::fmt::format, crate::util::stub_format)]
fn c01_cell_roundtrip_str_long() {
    roundtrip(2, true);
}

/// C01/C20: `StringRef::write` -> `read`; in short mode numbers above 0xFFFF
/// are refused with an error, never truncated.
#[kani::proof]
#[kani::unwind(6)]
#[kani::stub(std::fmt::format, crate::util::stub_format)]
fn c20_stringref_width() {
    let sr = any_string_ref();
    let n = sr.number();
    let long: bool = kani::any();
    let mut sink = FixedSink::<4>::new();
    let w = is_ok_forget(StringRef::write(&mut sink, Some(sr), long));
    if long {
        assert!(w.is_some(), "C20: long-mode reference write failed");
        assert!(sink.len == 3, "C20: long-mode reference is not 3 bytes");
    } else if n > 0xFFFF {
        assert!(w.is_none(), "C20: reference above 16 bits written in short mode (truncation)");
    } else {
        assert!(w.is_some(), "C20: short-mode reference within 16 bits refused");
        assert!(sink.len == 2, "C20: short-mode reference is not 2 bytes");
    }
    if w.is_some() {
        let mut rd: &[u8] = &sink.buf[..sink.len];
        match is_ok_forget(StringRef::read(&mut rd, long)) {
            Some(Some(back)) => assert!(back.number() == n, "C01/C20: reference read back differs"),
            _ => panic!("C01/C20: reference read back failed or null"),
        }
    }
    kani::cover!(!long && n > 0xFFFF);
    kani::cover!(!long && n <= 0xFFFF);
    kani::cover!(long);
}

/// C02/C09: `read_value` on ARBITRARY bytes against a decoder written from
/// the format description: little-endian, 0 = null, integers offset-binary
/// (x ^ 0x8000 / x ^ 0x8000_0000), references 2 or 3 bytes.  Never panics.
#[kani::proof]
#[kani::unwind(6)]
#[kani::stub(std::fmt::format, crate::util::stub_format)]
fn c02_read_value_vs_spec() {
    let bytes: [u8; 4] = kani::any();
    let k: u8 = kani::any();
    kani::assume(k < 3);
    let long: bool = kani::any();
    let len: usize = kani::any();
    kani::assume(len <= 4);
    let ct = coltype_of(k);
    let mut rd: &[u8] = &bytes[..len];
    let got = is_ok_forget(ct.read_value(&mut rd, long));
    let need: usize = match k {
        0 => 2,
        1 => 4,
        _ => {
            if long {
                3
            } else {
                2
            }
        }
    };
    if len < need {
        assert!(got.is_none(), "C02/C09: short input must be an error");
    } else {
        let want = match k {
            0 => {
                let x = (bytes[0] as u16) | ((bytes[1] as u16) << 8);
                if x == 0 {
                    ValueRef::Null
                } else {
                    ValueRef::Int((x as i32) - 0x8000)
                }
            }
            1 => {
                let x = (bytes[0] as u32) | ((bytes[1] as u32) << 8) | ((bytes[2] as u32) << 16) | ((bytes[3] as u32) << 24);
                if x == 0 {
                    ValueRef::Null
                } else {
                    ValueRef::Int((x as i64 - 0x8000_0000i64) as i32)
                }
            }
            _ => {
                let mut x = (bytes[0] as u32) | ((bytes[1] as u32) << 8);
                if long {
                    x |= (bytes[2] as u32) << 16;
                }
                if x == 0 {
                    ValueRef::Null
                } else {
                    // build the expected reference through the real constructor
                    let eb = [(x & 0xff) as u8, ((x >> 8) & 0xff) as u8, ((x >> 16) & 0xff) as u8];
                    let mut er: &[u8] = &eb;
                    match is_ok_forget(StringRef::read(&mut er, true)) {
                        Some(Some(sr)) => {
                            assert!(sr.number() as u32 == x);
                            ValueRef::Str(sr)
                        }
                        _ => unreachable!(),
                    }
                }
            }
        };
        match got {
            Some(g) => assert!(g == want, "C02: decoded cell differs from the format description"),
            None => panic!("C02: well-formed cell bytes refused"),
        }
        assert!(rd.len() == len - need, "C02: decoder consumed the wrong number of bytes");
    }
    kani::cover!(len >= need && k == 0);
    kani::cover!(len >= need && k == 2 && long);
    kani::cover!(len < need);
}

/// C02/C09: every i32 bit-field through `ColumnBuilder::with_bitfield`
/// against the format description; never panics.
#[kani::proof]
#[kani::unwind(6)]
#[kani::stub(std::fmt::format, crate::util::stub_format)]
fn c02_bitfield_vs_spec() {
    let bits: i32 = kani::any();
    let r = is_ok_forget(Column::build("X").with_bitfield(bits));
    let size = bits & 0xff;
    let want: Option<ColumnType> = if bits & 0x800 != 0 {
        Some(ColumnType::Str(size as usize))
    } else if size == 4 {
        Some(ColumnType::Int32)
    } else if size == 2 || size == 1 {
        // size 1 is the documented quirk (rust-msi issue 8): stored as 2 bytes
        Some(ColumnType::Int16)
    } else {
        None
    };
    match (r, want) {
        (Some(col), Some(ct)) => {
            assert!(col.coltype() == ct, "C02: column type decoded from the bit-field differs from the format description");
            assert!(col.is_localizable() == (bits & 0x200 != 0), "C02: localizable flag");
            assert!(col.is_nullable() == (bits & 0x1000 != 0), "C02: nullable flag");
            assert!(col.is_primary_key() == (bits & 0x2000 != 0), "C02: primary-key flag");
            std::mem::forget(col);
        }
        (None, None) => {}
        (Some(col), None) => {
            std::mem::forget(col);
            panic!("C02: invalid integer field size accepted");
        }
        (None, Some(_)) => panic!("C02: valid bit-field refused"),
    }
    kani::cover!(want.is_none());
    kani::cover!(bits & 0x800 != 0);
}
