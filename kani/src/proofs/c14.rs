//! C14 -- the project-code part of the code-page layer.
use crate::internal::codepage::CodePage;
use crate::util::*;

/// from_id / id are mutually inverse (0 is the documented alias of UTF-8).
#[kani::proof]
#[kani::unwind(4)]
fn c14_id_inverse() {
    let id: i32 = kani::any();
    match CodePage::from_id(id) {
        Some(cp) => {
            assert!(cp.id() == id || (id == 0 && cp == CodePage::Utf8), "C14: from_id(id).id() differs from id");
            assert!(CodePage::from_id(cp.id()) == Some(cp), "C14: from_id(cp.id()) is not cp");
            assert!(cp.id() > 0 && cp.id() <= 0xffff, "C14: code page ids are 16-bit");
        }
        None => {}
    }
    kani::cover!(CodePage::from_id(id).is_some());
    kani::cover!(CodePage::from_id(id).is_none());
}

fn ascii_laws<const L: usize>() {
    let bytes: [u8; L] = kani::any();
    let s = match std::str::from_utf8(&bytes) {
        Ok(s) => s,
        Err(_) => {
            kani::assume(false);
            unreachable!()
        }
    };
    let enc = CodePage::UsAscii.encode(s);
    // per-character law: each char encodes to itself (ASCII) or to the single byte '?'
    let mut n_chars = 0;
    let mut i = 0;
    while i < L {
        let b = bytes[i];
        if b < 0x80 {
            assert!(enc.len() > n_chars && enc[n_chars] == b, "C14: an ASCII character must encode to itself");
            i += 1;
        } else {
            assert!(enc.len() > n_chars && enc[n_chars] == b'?', "C14: an unrepresentable character must encode to the single byte '?'");
            // skip the continuation bytes of this character
            i += 1;
            while i < L && (bytes[i] & 0xc0) == 0x80 {
                i += 1;
            }
        }
        n_chars += 1;
    }
    assert!(enc.len() == n_chars, "C14: the encoding of a string is the concatenation of the encodings of its characters");
    // decoding what was encoded gives back each representable character
    let dec = CodePage::UsAscii.decode(&enc);
    let db = dec.as_bytes();
    assert!(db.len() == n_chars, "C14: decoding ASCII bytes yields one character per byte");
    let mut j = 0;
    while j < n_chars {
        assert!(db[j] == enc[j], "C14: an encoded ASCII byte must decode back to the same character");
        j += 1;
    }
    kani::cover!(n_chars < L);
    kani::cover!(n_chars == L);
    std::mem::forget(enc);
    std::mem::forget(dec);
}

#[kani::proof]
#[kani::unwind(8)]
fn c14_ascii_laws_len1() {
    let bytes: [u8; 1] = kani::any();
    kani::assume(bytes[0] < 0x80);
    let s = std::str::from_utf8(&bytes).unwrap();
    let enc = CodePage::UsAscii.encode(s);
    assert!(enc.len() == 1 && enc[0] == bytes[0], "C14: an ASCII character must encode to itself");
    let dec = CodePage::UsAscii.decode(&enc);
    assert!(dec.as_bytes().len() == 1 && dec.as_bytes()[0] == bytes[0], "C14: an encoded ASCII byte must decode back");
    kani::cover!(true);
    std::mem::forget(enc);
    std::mem::forget(dec);
}

#[kani::proof]
#[kani::unwind(8)]
fn c14_ascii_laws_len2() {
    ascii_laws::<2>();
}

#[kani::proof]
#[kani::unwind(8)]
fn c14_ascii_laws_len3() {
    ascii_laws::<3>();
}

/// decoding accepts any bytes: ASCII bytes map to themselves, others to U+FFFD.
#[kani::proof]
#[kani::unwind(8)]
fn c14_ascii_decode_total() {
    let bytes: [u8; 3] = kani::any();
    let dec = CodePage::UsAscii.decode(&bytes);
    let db = dec.as_bytes();
    let mut pos = 0;
    let mut i = 0;
    while i < 3 {
        if bytes[i] < 0x80 {
            assert!(db[pos] == bytes[i], "C14: an ASCII byte must decode to the same character");
            pos += 1;
        } else {
            assert!(db[pos] == 0xef && db[pos + 1] == 0xbf && db[pos + 2] == 0xbd, "C14: a non-ASCII byte must decode to U+FFFD");
            pos += 3;
        }
        i += 1;
    }
    assert!(db.len() == pos);
    kani::cover!(pos == 3);
    kani::cover!(pos == 9);
    std::mem::forget(dec);
}
