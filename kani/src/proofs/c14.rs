//! C14 -- the project-code part of the code-page layer.
use crate::internal::codepage::CodePage;
use crate::util::*;

/// from_id / id are mutually inverse (0 is the documented alias of UTF-8).
#[kani::proof]
#[kani::unwind(4)]
fn c14_id_inverse() {
    let id: i32 = kani::any();
    match CodePage::from_id(id) {
        Some(cp) => {
            assert!(cp.id() == id || (id == 0 && cp == CodePage::Utf8), "C14: from_id(id).id() differs from id");
            assert!(CodePage::from_id(cp.id()) == Some(cp), "C14: from_id(cp.id()) is not cp");
            assert!(cp.id() > 0 && cp.id() <= 0xffff, "C14: code page ids are 16-bit");
        }
        None => {}
    }
    kani::cover!(CodePage::from_id(id).is_some());
    kani::cover!(CodePage::from_id(id).is_none());
}

/// US-ASCII codec laws on CONCRETE string shapes (the codec builds Strings
/// from chars; with symbolic bytes that is the measured out-of-memory pattern,
/// 8 GB even for one byte).  Honestly a table of runs decided by CBMC.
fn ascii_shape(s: &str, want: &[u8]) {
    let enc = CodePage::UsAscii.encode(s);
    assert!(enc.len() == want.len(), "C14: the encoding of a string is the concatenation of the encodings of its characters (one byte each under US-ASCII)");
    let mut i = 0;
    while i < want.len() {
        assert!(enc[i] == want[i], "C14: a character must encode to itself (ASCII) or to the single byte '?'");
        i += 1;
    }
    let dec = CodePage::UsAscii.decode(&enc);
    let db = dec.as_bytes();
    assert!(db.len() == want.len(), "C14: decoding ASCII bytes yields one character per byte");
    let mut j = 0;
    while j < want.len() {
        assert!(db[j] == want[j], "C14: an encoded ASCII byte must decode back to the same character");
        j += 1;
    }
    std::mem::forget(enc);
    std::mem::forget(dec);
}

#[kani::proof]
#[kani::unwind(8)]
fn c14_ascii_shapes() {
    ascii_shape("", b"");
    ascii_shape("a", b"a");
    ascii_shape("a~\u{7f}", b"a~\x7f");
    ascii_shape("\u{e9}", b"?");
    ascii_shape("a\u{e9}b", b"a?b");
    ascii_shape("\u{65e5}\u{1f600}z", b"??z");
    kani::cover!(true);
}

/// decoding accepts any bytes (concrete shapes): non-ASCII bytes become U+FFFD
#[kani::proof]
#[kani::unwind(8)]
fn c14_ascii_decode_shapes() {
    let d = CodePage::UsAscii.decode(&[0x41, 0x80, 0xff, 0x00]);
    let b = d.as_bytes();
    assert!(b.len() == 8 && b[0] == 0x41 && b[1] == 0xef && b[2] == 0xbf && b[3] == 0xbd && b[4] == 0xef && b[7] == 0x00,
        "C14: ASCII decode: ASCII bytes map to themselves, others to U+FFFD");
    // decoding is byte-wise: adjacent high bytes that happen to form a UTF-8 sequence (or a
    // prefix of one) are still one replacement character each
    let e = CodePage::UsAscii.decode(&[0xc3, 0xa9, b'z', 0xe2, 0x82]);
    let eb = e.as_bytes();
    assert!(eb.len() == 13 && eb[0] == 0xef && eb[3] == 0xef && eb[6] == b'z' && eb[7] == 0xef && eb[10] == 0xef,
        "C14: US-ASCII decoding must replace every non-ASCII byte by one U+FFFD, whatever its neighbours");
    kani::cover!(true);
    std::mem::forget(d);
    std::mem::forget(e);
}
