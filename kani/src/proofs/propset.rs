//! Property-set kernels.
//!  C10: layout law of `PropertySet::write` (offset table vs. where values
//!       really start, 4-byte alignment, exact section size, LPSTR length
//!       field), round trip through `PropertySet::read`, code-page property.
//!  C02/C09: `PropertySet::read` on independently encoded / arbitrary bytes.
//!  C15: `PropertySet::write` under a faulty buffered medium.
use crate::internal::codepage::CodePage;
use crate::internal::propset::{OperatingSystem, PropertySet, PropertyValue};
use crate::internal::timestamp::Timestamp;
use crate::util::*;

const FMTID: [u8; 16] = [0xe0, 0x85, 0x9f, 0xf2, 0xf9, 0x4f, 0x68, 0x10, 0xab, 0x91, 0x08, 0x00, 0x2b, 0x27, 0xb3, 0xd9];

fn u32_at<const N: usize>(b: &[u8; N], off: usize) -> u32 {
    (b[off] as u32) | ((b[off + 1] as u32) << 8) | ((b[off + 2] as u32) << 16) | ((b[off + 3] as u32) << 24)
}

fn new_set() -> PropertySet {
    PropertySet::new(OperatingSystem::Win32, 10, FMTID)
}

/// Independent reading of the section header written by `write`:
/// returns (section_offset, section_size, num_properties).
fn section<const N: usize>(b: &[u8; N]) -> (usize, usize, usize) {
    let so = u32_at(b, 44) as usize;
    (so, u32_at(b, so) as usize, u32_at(b, so + 4) as usize)
}

/// offset (relative to section start) recorded for property `id`.
fn offset_of<const N: usize>(b: &[u8; N], so: usize, nprops: usize, id: u32) -> Option<usize> {
    let mut i = 0;
    let mut found = None;
    while i < nprops {
        if u32_at(b, so + 8 + 8 * i) == id {
            found = Some(u32_at(b, so + 8 + 8 * i + 4) as usize);
        }
        i += 1;
    }
    found
}

/// The law behind "an independent parser reads the same values": after a
/// string property, the next property's recorded offset must point at its
/// type tag.  `s` is a concrete shape (symbolic strings are out of reach);
/// the integer value and the property order are symbolic.
fn offsets_after_string(s: &'static str, encoded_len: usize, before: bool) {
    let x: i32 = kani::any();
    let mut ps = new_set();
    ps.set_codepage(CodePage::UsAscii);
    // the string sits before (id 2) or after (id 4) the integer (id 3);
    // concrete per call: symbolic BTreeMap keys are out of reach (measured)
    let sid: u32 = if before { 2 } else { 4 };
    ps.set(sid, PropertyValue::LpStr(String::from(s)));
    ps.set(3, PropertyValue::I4(x));
    let mut sink = FixedSink::<128>::new();
    assert!(is_ok_forget(ps.write(&mut sink)).is_some(), "C10: PropertySet::write failed");
    let b = &sink.buf;
    let (so, size, n) = section(b);
    assert!(so == 48 && n == 3, "C10: section header");
    assert!(size == sink.len - so, "C10: section size field differs from the bytes actually written");
    let o3 = offset_of(b, so, n, 3).unwrap();
    let os_ = offset_of(b, so, n, sid).unwrap();
    let o1 = offset_of(b, so, n, 1).unwrap();
    assert!(o3 % 4 == 0 && os_ % 4 == 0 && o1 % 4 == 0, "C10: property offset not 4-byte aligned");
    assert!(so + o3 + 8 <= sink.len, "C10: property offset points outside the section");
    assert!(u32_at(b, so + o3) == 3, "C10: offset of the integer property does not point at its type tag");
    assert!(u32_at(b, so + o3 + 4) == x as u32, "C10: integer property value not found at its recorded offset");
    assert!(u32_at(b, so + os_) == 30, "C10: offset of the string property does not point at its type tag");
    assert!(u32_at(b, so + os_ + 4) as usize == encoded_len + 1, "C10: LPSTR length field differs from the encoded bytes + terminator");
    assert!(u32_at(b, so + o1) == 2, "C10: offset of the code-page property does not point at its type tag");
    kani::cover!(true);
    std::mem::forget(ps);
}

macro_rules! offsets_harness {
    ($name:ident, $s:expr, $enc:expr) => {
        #[kani::proof]
        #[kani::unwind(10)]
        #[kani::stub(std::fmt::format, crate::util::stub_format)]
        fn $name() {
            offsets_after_string($s, $enc, true);
            offsets_after_string($s, $enc, false);
        }
    };
}

offsets_harness!(c10_offsets_str_empty, "", 0);
offsets_harness!(c10_offsets_str_a, "a", 1);
offsets_harness!(c10_offsets_str_ab, "ab", 2);
offsets_harness!(c10_offsets_str_abc, "abc", 3);
offsets_harness!(c10_offsets_str_abcd, "abcd", 4);
offsets_harness!(c10_offsets_str_e1, "\u{e9}", 1);
offsets_harness!(c10_offsets_str_e1a, "\u{e9}a", 2);
offsets_harness!(c10_offsets_str_e2, "\u{e9}\u{e9}", 2);
offsets_harness!(c10_offsets_str_e2a, "\u{e9}\u{e9}a", 3);
offsets_harness!(c10_offsets_str_cjk, "\u{65e5}", 1);

/// The per-value law that makes the offset table right: for every value,
/// the bytes `write` emits == `size_including_padding` (what the offset table
/// is computed from), a multiple of 4; LPSTR: length field == encoded bytes + 1
/// and the terminator is in place.  Through the `msi_verif` hook (private fns).
fn value_size_law(v: PropertyValue, encoded_len: Option<usize>) {
    let mut sink = FixedSink::<32>::new();
    assert!(is_ok_forget(v.verif_write(&mut sink, CodePage::UsAscii)).is_some(), "C10: PropertyValue::write failed");
    let claimed = v.verif_size_including_padding(CodePage::UsAscii) as usize;
    assert!(sink.len % 4 == 0, "C10: a written property value is not padded to a multiple of 4 bytes");
    assert!(claimed == sink.len, "C10: size used for the offset table differs from the bytes actually written (next property's offset is wrong)");
    if let Some(n) = encoded_len {
        assert!(u32_at(&sink.buf, 0) == 30, "C10: LPSTR type tag");
        assert!(u32_at(&sink.buf, 4) as usize == n + 1, "C10: LPSTR length field differs from encoded bytes + terminator");
        assert!(sink.buf[8 + n] == 0, "C10: LPSTR terminator missing");
        assert!(sink.len == 8 + ((n + 1 + 3) / 4) * 4, "C10: LPSTR padded size");
    }
    kani::cover!(true);
    std::mem::forget(v);
}

macro_rules! size_law_str {
    ($name:ident, $s:expr, $enc:expr) => {
        #[kani::proof]
        #[kani::unwind(12)]
        #[kani::stub(std::fmt::format, crate::util::stub_format)]
        fn $name() {
            value_size_law(PropertyValue::LpStr(String::from($s)), Some($enc));
        }
    };
}

size_law_str!(c10_size_law_str_empty, "", 0);
size_law_str!(c10_size_law_str_a, "a", 1);
size_law_str!(c10_size_law_str_ab, "ab", 2);
size_law_str!(c10_size_law_str_abc, "abc", 3);
size_law_str!(c10_size_law_str_abcd, "abcd", 4);
size_law_str!(c10_size_law_str_e1, "\u{e9}", 1);
size_law_str!(c10_size_law_str_e1a, "\u{e9}a", 2);
size_law_str!(c10_size_law_str_e2, "\u{e9}\u{e9}", 2);
size_law_str!(c10_size_law_str_e2a, "\u{e9}\u{e9}a", 3);
size_law_str!(c10_size_law_str_cjk, "\u{65e5}", 1);
size_law_str!(c10_size_law_str_cjk2a, "\u{65e5}\u{672c}a", 3);

#[kani::proof]
#[kani::unwind(12)]
#[kani::stub(std::fmt::format, crate::util::stub_format)]
fn c10_size_law_scalars() {
    value_size_law(PropertyValue::Empty, None);
    value_size_law(PropertyValue::Null, None);
    value_size_law(PropertyValue::I1(kani::any()), None);
    value_size_law(PropertyValue::I2(kani::any()), None);
    value_size_law(PropertyValue::I4(kani::any()), None);
    let t: u64 = kani::any();
    let ts = match is_ok_forget(Timestamp::read_from(&mut ArrReader::new(t.to_le_bytes(), 8))) {
        Some(ts) => ts,
        None => unreachable!(),
    };
    value_size_law(PropertyValue::FileTime(ts), None);
}

/// Integer / FILETIME properties with symbolic VALUES: layout law and
/// `read(write(ps)) == ps`.
fn ints_roundtrip(id_a: u32, id_b: u32, second_is_time: bool) {
    let x: i32 = kani::any();
    let y: i16 = kani::any();
    let t: u64 = kani::any();
    let tb = t.to_le_bytes();
    let ts = match is_ok_forget(Timestamp::read_from(&mut ArrReader::new(tb, 8))) {
        Some(ts) => ts,
        None => unreachable!(),
    };
    let mut ps = new_set();
    ps.set(id_a, PropertyValue::I4(x));
    if second_is_time {
        ps.set(id_b, PropertyValue::FileTime(ts));
    } else {
        ps.set(id_b, PropertyValue::I2(y));
    }
    let mut sink = FixedSink::<96>::new();
    assert!(is_ok_forget(ps.write(&mut sink)).is_some(), "C10: PropertySet::write failed");
    let b = &sink.buf;
    let (so, size, n) = section(b);
    assert!(so == 48 && n == 2, "C10: section header");
    assert!(size == sink.len - so, "C10: section size field differs from the bytes actually written");
    let oa = offset_of(b, so, n, id_a).unwrap();
    let ob = offset_of(b, so, n, id_b).unwrap();
    assert!(oa % 4 == 0 && ob % 4 == 0, "C10: property offset not 4-byte aligned");
    assert!(u32_at(b, so + oa) == 3 && u32_at(b, so + oa + 4) == x as u32, "C10: I4 property not at its recorded offset");
    if second_is_time {
        assert!(u32_at(b, so + ob) == 64, "C10: FILETIME property not at its recorded offset");
        assert!(u32_at(b, so + ob + 4) == (t & 0xffff_ffff) as u32 && u32_at(b, so + ob + 8) == (t >> 32) as u32,
            "C10/C18: FILETIME value is not the 8-byte little-endian tick count");
    } else {
        assert!(u32_at(b, so + ob) == 2 && (u32_at(b, so + ob + 4) & 0xffff) == (y as u16) as u32, "C10: I2 property not at its recorded offset");
    }
    // read back through the real reader
    let back = is_ok_forget(PropertySet::read(ArrReader::new(sink.buf, sink.len)));
    assert!(back.is_some(), "C10: the property set just written is refused by the reader");
    let back = back.unwrap();
    assert!(back.get(id_a) == Some(&PropertyValue::I4(x)), "C10: I4 property changed by write/read");
    if second_is_time {
        assert!(back.get(id_b) == Some(&PropertyValue::FileTime(ts)), "C10: FILETIME property changed by write/read");
    } else {
        assert!(back.get(id_b) == Some(&PropertyValue::I2(y)), "C10: I2 property changed by write/read");
    }
    kani::cover!(true);
    std::mem::forget(ps);
    std::mem::forget(back);
}

/// Property ids are concrete per call (symbolic BTreeMap keys: out of memory
/// at 24 GB, measured); values are symbolic.  Both id orders, both second
/// value types.
#[kani::proof]
#[kani::unwind(10)]
#[kani::stub(std::fmt::format, crate::util::stub_format)]
fn c10_propset_ints_roundtrip() {
    ints_roundtrip(3, 12, true);
    ints_roundtrip(15, 2, false);
}

/// The code-page property: `set_codepage(cp)` keeps the cached code page in
/// step with property 1 for all 26 code pages; the 16-bit id is stored signed
/// and must read back to the same code page.
#[kani::proof]
#[kani::unwind(6)]
#[kani::stub(std::fmt::format, crate::util::stub_format)]
fn c10_codepage_property() {
    let id: i32 = kani::any();
    let cp = match CodePage::from_id(id) {
        Some(cp) => cp,
        None => {
            kani::assume(false);
            unreachable!()
        }
    };
    let mut ps = new_set();
    ps.set_codepage(cp);
    assert!(ps.codepage() == cp, "C10: code page getter differs from the code page last set");
    match ps.get(1) {
        Some(&PropertyValue::I2(v)) => {
            assert!(v == cp.id() as i16, "C10: property 1 does not hold the code page id");
            assert!(CodePage::from_id((v as u16) as i32) == Some(cp), "C10: stored (signed 16-bit) code page id does not read back to the same code page");
        }
        _ => panic!("C10: property 1 is not an I2 after set_codepage"),
    }
    kani::cover!(cp == CodePage::Utf8);
    kani::cover!(cp == CodePage::Windows932);
    std::mem::forget(ps);
}

/// C02: a property set ENCODED BY THE HARNESS from the format description
/// (symbolic property order, symbolic extra padding between values) is read
/// to exactly the encoded values.
#[kani::proof]
#[kani::unwind(18)]
#[kani::stub(std::fmt::format, crate::util::stub_format)]
fn c02_propset_read_vs_spec() {
    let x: i32 = kani::any();
    let y: i16 = kani::any();
    let swap: bool = kani::any(); // order of the two entries in the id/offset table
    let pad: bool = kani::any(); // 4 bytes of slack between the two values
    let mut b = [0u8; 96];
    b[0] = 0xfe;
    b[1] = 0xff; // byte order mark
    b[2] = 0;
    b[3] = 0; // version 0
    b[4] = 10;
    b[5] = 0;
    b[6] = 2;
    b[7] = 0; // Win32
    b[24] = 1; // reserved
    let mut i = 0;
    while i < 16 {
        b[28 + i] = FMTID[i];
        i += 1;
    }
    b[44] = 48; // section offset
    let off_a: u32 = 24;
    let off_b: u32 = if pad { 36 } else { 32 };
    let total: u32 = off_b + 8;
    let w = |b: &mut [u8; 96], at: usize, v: u32| {
        b[at] = (v & 0xff) as u8;
        b[at + 1] = ((v >> 8) & 0xff) as u8;
        b[at + 2] = ((v >> 16) & 0xff) as u8;
        b[at + 3] = (v >> 24) as u8;
    };
    w(&mut b, 48, total);
    w(&mut b, 52, 2);
    let (ia, ib) = if swap { (64usize, 56usize) } else { (56usize, 64usize) };
    w(&mut b, ia, 7);
    w(&mut b, ia + 4, off_a);
    w(&mut b, ib, 5);
    w(&mut b, ib + 4, off_b);
    w(&mut b, 48 + off_a as usize, 3);
    w(&mut b, 48 + off_a as usize + 4, x as u32);
    w(&mut b, 48 + off_b as usize, 2);
    w(&mut b, 48 + off_b as usize + 4, (y as u16) as u32);
    let ps = is_ok_forget(PropertySet::read(ArrReader::new(b, 48 + total as usize)));
    assert!(ps.is_some(), "C02: a well-formed independently encoded property set is refused");
    let ps = ps.unwrap();
    assert!(ps.get(7) == Some(&PropertyValue::I4(x)), "C02: I4 property read differs from the encoded value");
    assert!(ps.get(5) == Some(&PropertyValue::I2(y)), "C02: I2 property read differs from the encoded value");
    assert!(ps.get(6).is_none(), "C02: a property that was not encoded is reported");
    assert!(ps.codepage() == CodePage::Utf8, "C02: absent code page property must mean the default code page");
    kani::cover!(swap && pad);
    kani::cover!(!swap && !pad);
    std::mem::forget(ps);
}

/// C09: `PropertySet::read` on an ARBITRARY image: a well-formed 48-byte
/// prefix up to the section offset, then K symbolic bytes (section size,
/// count, id/offset table, values).  No input may panic.
#[kani::proof]
#[kani::unwind(26)]
#[kani::stub(std::fmt::format, crate::util::stub_format)]
fn c09_propset_read_total() {
    const K: usize = 24;
    let mut b = [0u8; 48 + K];
    let hdr: [u8; 8] = kani::any();
    let mut i = 0;
    while i < 8 {
        b[i] = hdr[i];
        i += 1;
    }
    let reserved: u8 = kani::any();
    b[24] = reserved;
    let so: u8 = kani::any();
    b[44] = so;
    let body: [u8; K] = kani::any();
    // at most one property, so the BTreeMap stays small; its id, offset and the
    // bytes it points at are arbitrary
    kani::assume(body[4] <= 1 && body[5] == 0 && body[6] == 0 && body[7] == 0);
    let mut j = 0;
    while j < K {
        b[48 + j] = body[j];
        j += 1;
    }
    let r = is_ok_forget(PropertySet::read(ArrReader::new(b, 48 + K)));
    kani::cover!(r.is_some());
    kani::cover!(r.is_none());
    std::mem::forget(r);
}

/// C15: `PropertySet::write` into the faulty buffered medium.
#[kani::proof]
#[kani::unwind(10)]
#[kani::stub(std::fmt::format, crate::util::stub_format)]
fn c15_propset_write() {
    let x: i32 = kani::any();
    let mut ps = new_set();
    ps.set(3, PropertyValue::I4(x));
    let mut medium = Medium::new();
    let ok = {
        let w = FaultyBuffered::new(&mut medium);
        is_ok_forget(ps.write(w)).is_some()
    };
    if ok {
        assert!(!medium.silent_loss, "C15: PropertySet::write returned Ok although the deferred flush of its writer failed");
        assert!(medium.committed == medium.accepted, "C15: PropertySet::write returned Ok with bytes that never reached the medium");
    }
    kani::cover!(ok);
    kani::cover!(!ok);
    std::mem::forget(ps);
}


/// C09/C02: `PropertyValue::read` (through the msi_verif hook): never panics;
/// integer-typed values decode per the format description.  The type tag is
/// concrete per call (a symbolic tag makes CBMC explore the string arm with a
/// symbolic-length String: 24 GB, measured); for strings the length field is
/// concrete per call and covers the length arithmetic (0, 1, 2) and premature
/// end of stream; payload bytes and the available stream length are symbolic.
fn propvalue_read(ty: u32, lpstr_len: u32) {
    let mut b: [u8; 12] = kani::any();
    b[0] = (ty & 0xff) as u8;
    b[1] = ((ty >> 8) & 0xff) as u8;
    b[2] = ((ty >> 16) & 0xff) as u8;
    b[3] = (ty >> 24) as u8;
    if ty == 30 {
        b[4] = (lpstr_len & 0xff) as u8;
        b[5] = ((lpstr_len >> 8) & 0xff) as u8;
        b[6] = ((lpstr_len >> 16) & 0xff) as u8;
        b[7] = (lpstr_len >> 24) as u8;
        // text bytes concrete ASCII (their content is not the subject), terminator symbolic
        b[8] = b'x';
    }
    let len: usize = kani::any();
    kani::assume(len <= 12);
    let r = is_ok_forget(PropertyValue::verif_read(ArrReader::new(b, len), CodePage::UsAscii));
    match r {
        Some(PropertyValue::I4(v)) => assert!(ty == 3 && v as u32 == u32_at(&b, 4), "C02: I4 value decoded differently from the format description"),
        Some(PropertyValue::I2(v)) => assert!(ty == 2 && v as u16 == (u32_at(&b, 4) & 0xffff) as u16, "C02: I2 value decoded differently"),
        Some(PropertyValue::I1(v)) => assert!(ty == 16 && v as u8 == b[4], "C02: I1 value decoded differently"),
        Some(PropertyValue::Empty) => assert!(ty == 0, "C02: EMPTY decoded from another type tag"),
        Some(PropertyValue::Null) => assert!(ty == 1, "C02: NULL decoded from another type tag"),
        Some(PropertyValue::FileTime(_)) => assert!(ty == 64 && len >= 12, "C02: FILETIME decoded from a short stream"),
        Some(PropertyValue::LpStr(ref t)) => {
            assert!(ty == 30, "C02: LPSTR decoded from another type tag");
            let n = if lpstr_len == 0 { 0 } else { lpstr_len - 1 };
            assert!(t.len() as u32 == n, "C02: LPSTR text length differs from the length field - 1");
        }
        None => {
            let known = ty == 0 || ty == 1 || ty == 2 || ty == 3 || ty == 16 || ty == 30 || ty == 64;
            if known && ty != 30 {
                let need = match ty {
                    0 | 1 => 4,
                    2 => 6,
                    3 => 8,
                    16 => 5,
                    _ => 12,
                };
                assert!(len < need, "C02: a well-formed integer property value is refused");
            }
        }
    }
    std::mem::forget(r);
}

macro_rules! propvalue_harness {
    ($name:ident, $ty:expr, $len:expr) => {
        #[kani::proof]
        #[kani::unwind(8)]
        #[kani::stub(std::fmt::format, crate::util::stub_format)]
        fn $name() {
            propvalue_read($ty, $len);
            kani::cover!(true);
        }
    };
}

propvalue_harness!(c09_propvalue_read_i4, 3, 0);
propvalue_harness!(c09_propvalue_read_i2, 2, 0);
propvalue_harness!(c09_propvalue_read_i1, 16, 0);
/// FILETIME: 8 payload bytes are read in one `read_exact` (a byte loop in ArrReader), so the unwind bound is 10
#[kani::proof]
#[kani::unwind(10)]
#[kani::stub(std::fmt::format, crate::util::stub_format)]
fn c09_propvalue_read_filetime() {
    propvalue_read(64, 0);
    kani::cover!(true);
}
propvalue_harness!(c09_propvalue_read_empty, 0, 0);
propvalue_harness!(c09_propvalue_read_unknown, 5, 0);
propvalue_harness!(c09_propvalue_read_lpstr_len0, 30, 0);
propvalue_harness!(c09_propvalue_read_lpstr_len1, 30, 1);
propvalue_harness!(c09_propvalue_read_lpstr_len2, 30, 2);
propvalue_harness!(c09_propvalue_read_lpstr_huge, 30, 0xffff_ffff);

/// C18 (I/O half): a FILETIME value is written as the 8-byte little-endian
/// tick count and read back identically, for every u64.
#[kani::proof]
#[kani::unwind(10)]
#[kani::stub(std::fmt::format, crate::util::stub_format)]
fn c18_timestamp_io() {
    let t: u64 = kani::any();
    let ts = match is_ok_forget(Timestamp::read_from(&mut ArrReader::new(t.to_le_bytes(), 8))) {
        Some(ts) => ts,
        None => unreachable!(),
    };
    let mut sink = FixedSink::<8>::new();
    assert!(is_ok_forget(ts.write_to(&mut sink)).is_some());
    assert!(sink.len == 8, "C18: a timestamp must be written as 8 bytes");
    let mut i = 0;
    while i < 8 {
        assert!(sink.buf[i] == ((t >> (8 * i)) & 0xff) as u8, "C18: timestamp bytes are not the little-endian tick count");
        i += 1;
    }
    let back = is_ok_forget(Timestamp::read_from(&mut ArrReader::new(sink.buf, 8)));
    assert!(back == Some(ts), "C18: timestamp read back differs");
    // short input is an error, not a panic
    let short = is_ok_forget(Timestamp::read_from(&mut ArrReader::new(sink.buf, 7)));
    assert!(short.is_none(), "C18/C09: a 7-byte timestamp must be refused");
    kani::cover!(true);
}
