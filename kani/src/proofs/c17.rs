//! C17 -- language codes and tags.
use crate::internal::language::Language;
use crate::util::*;

#[kani::proof]
fn c17_code_preserved() {
    let c: u16 = kani::any();
    assert!(Language::from_code(c).code() == c, "C17: from_code(c).code() differs from c");
    kani::cover!(true);
}

fn starts_with(a: &[u8], p: &[u8]) -> bool {
    if a.len() < p.len() {
        return false;
    }
    let mut i = 0;
    while i < p.len() {
        if a[i] != p[i] {
            return false;
        }
        i += 1;
    }
    true
}

/// For every 16-bit identifier: `tag()` returns without panicking; the result
/// is the tag of the bare language (unknown sublanguage) or a regional tag
/// that extends it; an unknown language gives "und".
#[kani::proof]
#[kani::unwind(14)]
fn c17_tag_total() {
    let c: u16 = kani::any();
    let full = Language::from_code(c);
    let bare = Language::from_code(c & 0x3ff);
    let t = full.tag().as_bytes();
    let tb = bare.tag().as_bytes();
    assert!(t.len() >= 2, "C17: empty or one-letter tag");
    if tb.len() == 3 && tb[0] == b'u' && tb[1] == b'n' && tb[2] == b'd' {
        assert!(t.len() == 3 && t[0] == b'u' && t[1] == b'n' && t[2] == b'd', "C17: unknown language must give 'und' whatever the sublanguage");
    } else {
        assert!(starts_with(t, tb), "C17: a regional tag must extend its language's tag");
        assert!(t.len() == tb.len() || t[tb.len()] == b'-', "C17: a regional tag must be <language>-<region>");
    }
    kani::cover!(t.len() == 3 && t[0] == b'u');
    kani::cover!(t.len() == 5);
    kani::cover!(t.len() > tb.len());
}

fn eq_bytes(a: &[u8], b: &[u8]) -> bool {
    a.len() == b.len() && starts_with(a, b)
}

/// A tag whose language is known but whose region is not must not map to the
/// code of a different, KNOWN regional variant: the code it maps to must carry
/// the bare language tag.  (Concrete tags: `from_tag` scans the 127-entry
/// table; symbolic tags are thorough-tier only.)
fn unknown_region(tag: &str, lang: &str) {
    let r = Language::from_tag(tag);
    let back = r.tag().as_bytes();
    assert!(eq_bytes(back, lang.as_bytes()), "C17: a tag with a known language and an unknown region maps to the code of a different, known regional variant");
    assert!((r.code() & 0x3ff) == Language::from_tag(lang).code(), "C17: unknown region changed the language");
}

macro_rules! unknown_region_harness {
    ($name:ident, $tag:expr, $lang:expr) => {
        #[kani::proof]
        #[kani::unwind(130)]
        fn $name() {
            unknown_region($tag, $lang);
            kani::cover!(true);
        }
    };
}

unknown_region_harness!(c17_unknown_region_en, "en-XX", "en");
unknown_region_harness!(c17_unknown_region_zh, "zh-XX", "zh");
unknown_region_harness!(c17_unknown_region_de, "de-XX", "de");
unknown_region_harness!(c17_unknown_region_fr, "fr-QQ", "fr");
unknown_region_harness!(c17_unknown_region_es, "es-QQ", "es");
unknown_region_harness!(c17_unknown_region_ar, "ar-QQ", "ar");

/// unknown language -> neutral language (code 0, "und")
#[kani::proof]
#[kani::unwind(130)]
fn c17_unknown_language() {
    let r = Language::from_tag("qq-XX");
    assert!(r.code() == 0, "C17: a tag whose language is unknown must map to the neutral language");
    let r2 = Language::from_tag("qq");
    assert!(r2.code() == 0, "C17: a tag whose language is unknown must map to the neutral language");
    kani::cover!(true);
}

/// Well-known Windows identifiers carry their standard tags, both ways.
fn well_known(code: u16, tag: &str) {
    let l = Language::from_code(code);
    let t = l.tag().as_bytes();
    assert!(eq_bytes(t, tag.as_bytes()), "C17: a well-known Windows identifier does not carry its standard tag");
    assert!(Language::from_tag(tag).code() == code, "C17: a standard tag does not map to its Windows identifier");
}

macro_rules! well_known_harness {
    ($name:ident, $( ($code:expr, $tag:expr) ),* ) => {
        #[kani::proof]
        #[kani::unwind(130)]
        fn $name() {
            $( well_known($code, $tag); )*
            kani::cover!(true);
        }
    };
}

well_known_harness!(c17_well_known_a, (1033, "en-US"), (2057, "en-GB"), (1036, "fr-FR"), (3084, "fr-CA"), (1031, "de-DE"), (1041, "ja-JP"));
well_known_harness!(c17_well_known_b, (1034, "es-ES"), (1040, "it-IT"), (1046, "pt-BR"), (2070, "pt-PT"), (1049, "ru-RU"), (1042, "ko-KR"));
well_known_harness!(c17_well_known_c, (2052, "zh-CN"), (1028, "zh-TW"), (1043, "nl-NL"), (1053, "sv-SE"), (1045, "pl-PL"), (1055, "tr-TR"));
well_known_harness!(c17_well_known_d, (9, "en"), (12, "fr"), (7, "de"), (17, "ja"), (10, "es"), (3081, "en-AU"));

// three-letter languages and their regions (a prefix of them is a two-letter language of the table)
well_known_harness!(c17_well_known_e, (0x0457, "kok-IN"), (0x047a, "arn-CL"), (0x0475, "haw-US"), (0x0485, "sah-RU"), (0x0486, "qut-GT"), (0x57, "kok"));

/// an unknown language is neutral even when a known two-letter language is a prefix of it
#[kani::proof]
#[kani::unwind(130)]
fn c17_unknown_language_with_known_prefix() {
    assert!(Language::from_tag("enx-US").code() == 0, "C17: a tag whose language is unknown must map to the neutral language");
    assert!(Language::from_tag("enx").code() == 0, "C17: a tag whose language is unknown must map to the neutral language");
    assert!(Language::from_tag("e-US").code() == 0, "C17: a tag whose language is unknown must map to the neutral language");
    kani::cover!(true);
}

/// tag -> language -> tag is stable for every code whose tag has length L
/// (thorough tier: needs --unwindset on from_tag's two table loops).
fn stable<const L: usize>() {
    let c: u16 = kani::any();
    let l0 = Language::from_code(c);
    let t = l0.tag();
    kani::assume(t.len() == L);
    let mut buf = [0u8; L];
    let tb = t.as_bytes();
    let mut i = 0;
    while i < L {
        buf[i] = tb[i];
        i += 1;
    }
    let s = unsafe { std::str::from_utf8_unchecked(&buf) };
    let l1 = Language::from_tag(s);
    let back = l1.tag().as_bytes();
    assert!(eq_bytes(back, &buf), "C17: tag -> language -> tag is not stable");
    kani::cover!(true);
}

#[kani::proof]
#[kani::unwind(9)]
fn c17_stable_len2() {
    stable::<2>();
}

#[kani::proof]
#[kani::unwind(9)]
fn c17_stable_len3() {
    stable::<3>();
}

#[kani::proof]
#[kani::unwind(9)]
fn c17_stable_len5() {
    stable::<5>();
}

/// A regional tag names ONE code: if two different codes of the same language
/// give the same tag, that tag is the bare language tag (unknown or neutral
/// sublanguage) -- never a regional tag that belongs to another code.
#[kani::proof]
#[kani::unwind(14)]
fn c17_regional_tag_unique() {
    let c1: u16 = kani::any();
    let c2: u16 = kani::any();
    kani::assume(c1 != c2 && (c1 & 0x3ff) == (c2 & 0x3ff));
    let l1 = Language::from_code(c1);
    let l2 = Language::from_code(c2);
    let lb = Language::from_code(c1 & 0x3ff);
    let t1 = l1.tag().as_bytes();
    let t2 = l2.tag().as_bytes();
    let tb = lb.tag().as_bytes();
    // same table entry <=> same static string (distinct entries never share a tag: the repo's own
    // unit tests `lang_tags_are_unique` / `sublang_tags_are_unique`); pointer identity keeps the
    // query cheap (byte comparison of two symbolic-length tags: 600 s)
    let same = t1.as_ptr() == t2.as_ptr() && t1.len() == t2.len();
    if same {
        assert!(t1.as_ptr() == tb.as_ptr() && t1.len() == tb.len(),
            "C17: two different codes share a regional tag (an unknown sublanguage must give the bare language tag)");
    }
    kani::cover!(same);
    kani::cover!(!same);
}
