//! C13 — expression evaluation is total and follows the documented operators.
//!
//! One inductive step of `Ast::eval`: every operator applied to two arbitrary
//! *values* (held in columns of a row, so nothing is folded), compared with a
//! reference table written from the documentation.  See DESIGN.md §2/C13.
use crate::internal::expr::Expr;
use crate::internal::value::Value;
use crate::util::*;

#[derive(Clone, Copy, PartialEq, Eq)]
pub enum Op {
    Eq,
    Ne,
    Lt,
    Le,
    Gt,
    Ge,
    Add,
    Sub,
    Mul,
    Div,
    BitAnd,
    BitOr,
    BitXor,
    Shl,
    Shr,
}

pub fn apply(op: Op, l: Expr, r: Expr) -> Expr {
    match op {
        Op::Eq => l.eq(r),
        Op::Ne => l.ne(r),
        Op::Lt => l.lt(r),
        Op::Le => l.le(r),
        Op::Gt => l.gt(r),
        Op::Ge => l.ge(r),
        Op::Add => l + r,
        Op::Sub => l - r,
        Op::Mul => l * r,
        Op::Div => l / r,
        Op::BitAnd => l & r,
        Op::BitOr => l | r,
        Op::BitXor => l ^ r,
        Op::Shl => l << r,
        Op::Shr => l >> r,
    }
}

fn is_int(v: &Value, n: i32) -> bool {
    match *v {
        Value::Int(m) => m == n,
        _ => false,
    }
}

fn is_null(v: &Value) -> bool {
    matches!(*v, Value::Null)
}

fn is_bool(v: &Value, b: bool) -> bool {
    is_int(v, if b { 1 } else { 0 })
}

/// `got` is the exact integer `n`.
fn exact(got: &Value, n: i32) {
    assert!(is_int(got, n), "C13: integer operator result differs from two's-complement result");
}

/// Overflow / out-of-range case: Null or the wrapped value.
fn null_or(got: &Value, wrapped: i32) {
    assert!(
        is_null(got) || is_int(got, wrapped),
        "C13: overflow case must give Null or the wrapped value"
    );
}

fn str_index(v: &Value) -> Option<usize> {
    // position of a string value inside STRS (all harness strings come from
    // there); avoids symbolic-length comparisons.
    match *v {
        Value::Str(ref s) => {
            if s.len() == 0 {
                Some(0)
            } else if s.as_bytes()[0] == b'a' {
                Some(1)
            } else {
                Some(2)
            }
        }
        _ => None,
    }
}

/// Reference semantics, written from the documentation of `Expr`'s operator
/// methods and the property statement.
pub fn check_binop(op: Op, a: &Value, b: &Value, got: &Value) {
    match op {
        Op::Eq | Op::Ne => {
            let same = match (a, b) {
                (Value::Null, Value::Null) => true,
                (Value::Int(x), Value::Int(y)) => x == y,
                (Value::Str(_), Value::Str(_)) => str_index(a) == str_index(b),
                _ => false,
            };
            assert!(is_bool(got, if op == Op::Eq { same } else { !same }), "C13: =/!= must be structural equality as 0/1");
        }
        Op::Lt | Op::Le | Op::Gt | Op::Ge => {
            // result is always 0 or 1
            assert!(is_bool(got, false) || is_bool(got, true), "C13: comparison must give 0 or 1");
            let ord: Option<std::cmp::Ordering> = match (a, b) {
                (Value::Null, Value::Null) => Some(std::cmp::Ordering::Equal),
                (Value::Int(x), Value::Int(y)) => Some(x.cmp(y)),
                // "", "a", "b" are in ascending bytewise order
                (Value::Str(_), Value::Str(_)) => Some(str_index(a).unwrap().cmp(&str_index(b).unwrap())),
                _ => None, // no cross-type order is documented: unconstrained
            };
            if let Some(ord) = ord {
                let want = match op {
                    Op::Lt => ord == std::cmp::Ordering::Less,
                    Op::Le => ord != std::cmp::Ordering::Greater,
                    Op::Gt => ord == std::cmp::Ordering::Greater,
                    _ => ord != std::cmp::Ordering::Less,
                };
                assert!(is_bool(got, want), "C13: ordering comparison on same-typed operands is wrong");
            }
        }
        Op::Add => match (a, b) {
            (Value::Int(x), Value::Int(y)) => match x.checked_add(*y) {
                Some(s) => exact(got, s),
                None => null_or(got, x.wrapping_add(*y)),
            },
            (Value::Str(_), Value::Str(_)) => {
                // concatenation: checked by length and by bytes
                let (i, j) = (str_index(a).unwrap(), str_index(b).unwrap());
                match *got {
                    Value::Str(ref s) => {
                        let bytes = s.as_bytes();
                        let li = if i == 0 { 0 } else { 1 };
                        let lj = if j == 0 { 0 } else { 1 };
                        assert!(bytes.len() == li + lj, "C13: string + string must concatenate (length)");
                        if li == 1 {
                            assert!(bytes[0] == STRS[i].as_bytes()[0], "C13: string + string must concatenate (left)");
                        }
                        if lj == 1 {
                            assert!(bytes[li] == STRS[j].as_bytes()[0], "C13: string + string must concatenate (right)");
                        }
                    }
                    _ => panic!("C13: string + string must give a string"),
                }
            }
            _ => assert!(is_null(got), "C13: + on wrong types must give Null"),
        },
        Op::Sub => match (a, b) {
            (Value::Int(x), Value::Int(y)) => match x.checked_sub(*y) {
                Some(s) => exact(got, s),
                None => null_or(got, x.wrapping_sub(*y)),
            },
            _ => assert!(is_null(got), "C13: - on wrong types must give Null"),
        },
        // Full-width `*` and `/`: a second 32-bit multiplier/divider in the
        // reference makes the query a multiplier miter (measured: no answer in
        // 10 min).  At full width the reference therefore states everything
        // about the result that is cheap -- totality, type, the overflow
        // cases, the low 8 bits of the product, sign and magnitude of the
        // quotient -- and exactness is decided separately for 16-bit operands
        // (`c13_mul_exact16`, `c13_div_exact16`).
        Op::Mul => match (a, b) {
            (Value::Int(x), Value::Int(y)) => {
                let small = |v: i32| v >= -0x8000 && v < 0x8000;
                match *got {
                    Value::Int(g) => assert!(
                        (g as u8) == (*x as u8).wrapping_mul(*y as u8),
                        "C13: integer operator result differs from two's-complement result"
                    ),
                    Value::Null => assert!(!(small(*x) && small(*y)), "C13: * gave Null without overflow"),
                    _ => panic!("C13: * on integers must give an integer (or Null on overflow)"),
                }
            }
            _ => assert!(is_null(got), "C13: * on wrong types must give Null"),
        },
        Op::Div => match (a, b) {
            (Value::Int(_), Value::Int(0)) => assert!(is_null(got), "C13: division by zero must give Null"),
            (Value::Int(x), Value::Int(y)) => {
                if *x == i32::MIN && *y == -1 {
                    null_or(got, i32::MIN)
                } else {
                    match *got {
                        Value::Int(q) => {
                            if *y == 1 {
                                assert!(q == *x, "C13: integer operator result differs from two's-complement result");
                            }
                            if *y == -1 {
                                assert!(q == x.wrapping_neg(), "C13: integer operator result differs from two's-complement result");
                            }
                            assert!(q.unsigned_abs() <= x.unsigned_abs(), "C13: quotient larger than dividend");
                            assert!(q == 0 || (q < 0) == ((*x < 0) != (*y < 0)), "C13: quotient has the wrong sign");
                        }
                        _ => panic!("C13: / on integers with a non-zero divisor must give an integer"),
                    }
                }
            }
            _ => assert!(is_null(got), "C13: / on wrong types must give Null"),
        },
        Op::BitAnd => match (a, b) {
            (Value::Int(x), Value::Int(y)) => exact(got, x & y),
            _ => assert!(is_null(got), "C13: & on wrong types must give Null"),
        },
        Op::BitOr => match (a, b) {
            (Value::Int(x), Value::Int(y)) => exact(got, x | y),
            _ => assert!(is_null(got), "C13: | on wrong types must give Null"),
        },
        Op::BitXor => match (a, b) {
            (Value::Int(x), Value::Int(y)) => exact(got, x ^ y),
            _ => assert!(is_null(got), "C13: ^ on wrong types must give Null"),
        },
        Op::Shl => match (a, b) {
            (Value::Int(x), Value::Int(y)) => {
                if *y >= 0 && *y < 32 {
                    exact(got, ((*x as u32) << (*y as u32)) as i32)
                } else {
                    null_or(got, x.wrapping_shl(*y as u32))
                }
            }
            _ => assert!(is_null(got), "C13: << on wrong types must give Null"),
        },
        Op::Shr => match (a, b) {
            (Value::Int(x), Value::Int(y)) => {
                if *y >= 0 && *y < 32 {
                    exact(got, x >> (*y as u32))
                } else {
                    null_or(got, x.wrapping_shr(*y as u32))
                }
            }
            _ => assert!(is_null(got), "C13: >> on wrong types must give Null"),
        },
    }
}

fn lit(v: &Value) -> Expr {
    match *v {
        Value::Null => Expr::null(),
        Value::Int(n) => Expr::integer(n),
        Value::Str(ref s) => Expr::string(s.clone()),
    }
}

fn binop_lazy_kinds(op: Op, ka: usize, kb: usize) {
    let a = value_of_kind(ka);
    let b = value_of_kind(kb);
    let row = row_ab(a.clone(), b.clone());
    let e = apply(op, Expr::col("A"), Expr::col("B"));
    let got = e.eval(&row);
    check_binop(op, &a, &b, &got);
    if ka == 1 && kb == 1 {
        kani::cover!(matches!(got, Value::Int(_)), "some integer pair gives an integer");
    }
    std::mem::forget(e);
    std::mem::forget(row);
    std::mem::forget(got);
}

/// Straight-line enumeration of the 5x5 concrete kind pairs (no loop, so the
/// global unwind bound -- which also bounds the recursion of `Ast::eval` --
/// can stay at the depth the expression really has).
macro_rules! kind_row {
    ($f:expr, $a:expr) => {{
        $f($a, 0);
        $f($a, 1);
        $f($a, 2);
        $f($a, 3);
        $f($a, 4);
    }};
}

/// Kind pairs for operators whose result does not depend on *which* string
/// an operand is: {Null, Int, "a"} x {Null, Int, "a"}.
macro_rules! arith_kind_pairs {
    ($f:expr) => {{
        $f(0, 0);
        $f(0, 1);
        $f(0, 3);
        $f(1, 0);
        $f(1, 1);
        $f(1, 3);
        $f(3, 0);
        $f(3, 1);
        $f(3, 3);
    }};
}

macro_rules! all_kinds {
    ($f:expr) => {{
        $f(0);
        $f(1);
        $f(2);
        $f(3);
        $f(4);
    }};
}

fn string_blind(op: Op) -> bool {
    matches!(op, Op::Sub | Op::Mul | Op::Div | Op::BitAnd | Op::BitOr | Op::BitXor | Op::Shl | Op::Shr)
}

/// Lazy evaluation (`Ast::eval` on a row) dispatches every operator to the
/// same `BinOp::eval` that constant folding calls; the operator table itself
/// is decided on the (cheaper) folded path over all kind pairs, and the lazy
/// path over four representative pairs per operator: (Int, Int), ("a", "b"),
/// (Null, Int) and (Int, "a") -- enough to pin operand order and routing.
fn binop_lazy(op: Op) {
    binop_lazy_kinds(op, 1, 1);
    binop_lazy_kinds(op, 3, 4);
    binop_lazy_kinds(op, 0, 1);
    binop_lazy_kinds(op, 1, 3);
}

/// Literal operands: folded at construction; construction must not panic and
/// the folded constant obeys the same reference table as lazy evaluation.
fn binop_folded_kinds(op: Op, ka: usize, kb: usize) {
    let row = row_ab(Value::Null, Value::Null);
    let a = value_of_kind(ka);
    let b = value_of_kind(kb);
    let e = apply(op, lit(&a), lit(&b));
    let got = e.eval(&row);
    check_binop(op, &a, &b, &got);
    std::mem::forget(e);
    std::mem::forget(got);
    std::mem::forget(row);
}

/// `row` = the concrete kind of the left operand (wide operators: one harness
/// per left kind); ignored for string-blind operators.
fn binop_folded(op: Op, row: usize) {
    if string_blind(op) {
        arith_kind_pairs!(|ka, kb| binop_folded_kinds(op, ka, kb));
    } else {
        kind_row!(|ka, kb| binop_folded_kinds(op, ka, kb), row);
    }
    kani::cover!(true, "folded evaluation reached");
}

macro_rules! narrow_harnesses {
    ($($lazy:ident, $folded:ident, $op:expr;)*) => {$(
        #[kani::proof]
        #[kani::unwind(4)]
        fn $lazy() { binop_lazy($op); }
        #[kani::proof]
        #[kani::unwind(4)]
        fn $folded() { binop_folded($op, 0); }
    )*};
}

macro_rules! wide_harnesses {
    ($($lazy:ident, $f0:ident, $f1:ident, $f2:ident, $f3:ident, $f4:ident, $op:expr;)*) => {$(
        #[kani::proof]
        #[kani::unwind(4)]
        fn $lazy() { binop_lazy($op); }
        #[kani::proof]
        #[kani::unwind(4)]
        fn $f0() { binop_folded($op, 0); }
        #[kani::proof]
        #[kani::unwind(4)]
        fn $f1() { binop_folded($op, 1); }
        #[kani::proof]
        #[kani::unwind(4)]
        fn $f2() { binop_folded($op, 2); }
        #[kani::proof]
        #[kani::unwind(4)]
        fn $f3() { binop_folded($op, 3); }
        #[kani::proof]
        #[kani::unwind(4)]
        fn $f4() { binop_folded($op, 4); }
    )*};
}

wide_harnesses! {
    c13_lazy_eq, c13_fold_eq_k0, c13_fold_eq_k1, c13_fold_eq_k2, c13_fold_eq_k3, c13_fold_eq_k4, Op::Eq;
    c13_lazy_ne, c13_fold_ne_k0, c13_fold_ne_k1, c13_fold_ne_k2, c13_fold_ne_k3, c13_fold_ne_k4, Op::Ne;
    c13_lazy_lt, c13_fold_lt_k0, c13_fold_lt_k1, c13_fold_lt_k2, c13_fold_lt_k3, c13_fold_lt_k4, Op::Lt;
    c13_lazy_le, c13_fold_le_k0, c13_fold_le_k1, c13_fold_le_k2, c13_fold_le_k3, c13_fold_le_k4, Op::Le;
    c13_lazy_gt, c13_fold_gt_k0, c13_fold_gt_k1, c13_fold_gt_k2, c13_fold_gt_k3, c13_fold_gt_k4, Op::Gt;
    c13_lazy_ge, c13_fold_ge_k0, c13_fold_ge_k1, c13_fold_ge_k2, c13_fold_ge_k3, c13_fold_ge_k4, Op::Ge;
    c13_lazy_add, c13_fold_add_k0, c13_fold_add_k1, c13_fold_add_k2, c13_fold_add_k3, c13_fold_add_k4, Op::Add;
}

narrow_harnesses! {
    c13_lazy_sub, c13_fold_sub, Op::Sub;
    c13_lazy_mul, c13_fold_mul, Op::Mul;
    c13_lazy_div, c13_fold_div, Op::Div;
    c13_lazy_bitand, c13_fold_bitand, Op::BitAnd;
    c13_lazy_bitor, c13_fold_bitor, Op::BitOr;
    c13_lazy_bitxor, c13_fold_bitxor, Op::BitXor;
    c13_lazy_shl, c13_fold_shl, Op::Shl;
    c13_lazy_shr, c13_fold_shr, Op::Shr;
}

/// Mixed-type ordering: no cross-type order is documented, but the four
/// ordering operators must be mutually consistent (`<` is the negation of
/// `>=`, `>` of `<=`) and total.
#[kani::proof]
#[kani::unwind(4)]
fn c13_ordering_consistent() {
    // mixed-type pairs only (same-type ordering is fixed exactly by the operator harnesses)
    ordering_consistent(0, 1);
    ordering_consistent(1, 3);
    ordering_consistent(3, 0);
}

fn ordering_consistent(ka: usize, kb: usize) {
    let a = value_of_kind(ka);
    let b = value_of_kind(kb);
    let row = row_ab(a.clone(), b.clone());
    let lt = Expr::col("A").lt(Expr::col("B")).eval(&row);
    let ge = Expr::col("A").ge(Expr::col("B")).eval(&row);
    let gt = Expr::col("A").gt(Expr::col("B")).eval(&row);
    let le = Expr::col("A").le(Expr::col("B")).eval(&row);
    assert!(is_bool(&lt, true) != is_bool(&ge, true), "C13: < must be the negation of >=");
    assert!(is_bool(&gt, true) != is_bool(&le, true), "C13: > must be the negation of <=");
    assert!(is_bool(&lt, false) || is_bool(&lt, true));
    assert!(is_bool(&gt, false) || is_bool(&gt, true));
    kani::cover!(true);
    std::mem::forget(row);
}

#[derive(Clone, Copy, PartialEq, Eq)]
enum Un {
    Neg,
    BitNot,
    BoolNot,
}

fn truthy(v: &Value) -> bool {
    match *v {
        Value::Null => false,
        Value::Int(n) => n != 0,
        Value::Str(_) => str_index(v) != Some(0),
    }
}

fn check_unop(op: Un, a: &Value, got: &Value) {
    match op {
        Un::Neg => match *a {
            Value::Int(x) => match x.checked_neg() {
                Some(n) => exact(got, n),
                None => null_or(got, x.wrapping_neg()),
            },
            _ => assert!(is_null(got), "C13: unary - on a non-number must give Null"),
        },
        Un::BitNot => match *a {
            Value::Int(x) => exact(got, !x),
            _ => assert!(is_null(got), "C13: ~ on a non-number must give Null"),
        },
        Un::BoolNot => assert!(is_bool(got, !truthy(a)), "C13: NOT must follow the documented truthiness"),
    }
}

fn apply_un(op: Un, e: Expr) -> Expr {
    match op {
        Un::Neg => -e,
        Un::BitNot => e.bitinv(),
        Un::BoolNot => e.not(),
    }
}

fn unop_both(op: Un) {
    all_kinds!(|k| unop_kind(op, k));
}

fn unop_kind(op: Un, k: usize) {
    let a = value_of_kind(k);
    let row = row_a(a.clone());
    let lazy = apply_un(op, Expr::col("A")).eval(&row);
    check_unop(op, &a, &lazy);
    let folded = apply_un(op, lit(&a)).eval(&row);
    check_unop(op, &a, &folded);
    if k == 1 {
        kani::cover!(matches!(lazy, Value::Int(_)));
    }
    std::mem::forget(row);
}

#[kani::proof]
#[kani::unwind(4)]
fn c13_unop_neg() {
    unop_both(Un::Neg);
}

#[kani::proof]
#[kani::unwind(4)]
fn c13_unop_bitnot() {
    unop_both(Un::BitNot);
}

#[kani::proof]
#[kani::unwind(4)]
fn c13_unop_boolnot() {
    unop_both(Un::BoolNot);
}

/// AND / OR: documented truthiness, 0/1 result, and short-circuit — the right
/// operand names a column the row does not have, so evaluating it would
/// panic; it must not be evaluated when the left operand decides.
#[kani::proof]
#[kani::unwind(4)]
fn c13_and_or() {
    and_or(1, 1);
    and_or(1, 0);
    and_or(0, 3);
    and_or(2, 1);
    and_or(3, 2);
    and_or(3, 1);
}

fn and_or(ka: usize, kb: usize) {
    let a = value_of_kind(ka);
    let b = value_of_kind(kb);
    let row = row_ab(a.clone(), b.clone());
    let and = Expr::col("A").and(Expr::col("B")).eval(&row);
    let or = Expr::col("A").or(Expr::col("B")).eval(&row);
    assert!(is_bool(&and, truthy(&a) && truthy(&b)), "C13: AND truth table");
    assert!(is_bool(&or, truthy(&a) || truthy(&b)), "C13: OR truth table");
    if ka == 1 && kb == 1 {
        kani::cover!(is_bool(&and, true));
        kani::cover!(is_bool(&or, false));
    }
    std::mem::forget(row);
}

#[kani::proof]
#[kani::unwind(4)]
fn c13_short_circuit() {
    all_kinds!(|k| short_circuit(k));
}

fn short_circuit(k: usize) {
    let a = value_of_kind(k);
    let row = row_a(a.clone());
    if truthy(&a) {
        let or = Expr::col("A").or(Expr::col("Missing")).eval(&row);
        assert!(is_bool(&or, true), "C13: OR must short-circuit to 1");
    } else {
        let and = Expr::col("A").and(Expr::col("Missing")).eval(&row);
        assert!(is_bool(&and, false), "C13: AND must short-circuit to 0");
    }
    if k == 1 {
        kani::cover!(truthy(&a));
        kani::cover!(!truthy(&a));
    }
    std::mem::forget(row);
}

/// Exactness of `*` and `/` for operands of 16-bit magnitude (stated bound;
/// full-width exactness is a multiplier miter, out of reach -- see above).
/// Driven through constant folding AND through lazy evaluation on a row.
fn arith16(op: Op) {
    let x = kani::any::<i16>() as i32;
    let y = kani::any::<i16>() as i32;
    let want = match op {
        Op::Mul => Some(x.wrapping_mul(y)),
        _ => {
            if y == 0 {
                None
            } else {
                Some(x.wrapping_div(y))
            }
        }
    };
    let row = row_ab(Value::Int(x), Value::Int(y));
    let folded = apply(op, Expr::integer(x), Expr::integer(y)).eval(&row);
    let lazy = apply(op, Expr::col("A"), Expr::col("B")).eval(&row);
    match want {
        Some(w) => {
            assert!(is_int(&folded, w), "C13: integer operator result differs from two's-complement result");
            assert!(is_int(&lazy, w), "C13: integer operator result differs from two's-complement result");
        }
        None => {
            assert!(is_null(&folded), "C13: division by zero must give Null");
            assert!(is_null(&lazy), "C13: division by zero must give Null");
        }
    }
    kani::cover!(want.is_some());
    std::mem::forget(row);
}

#[kani::proof]
#[kani::unwind(4)]
fn c13_mul_exact16() {
    arith16(Op::Mul);
}

#[kani::proof]
#[kani::unwind(4)]
fn c13_div_exact16() {
    arith16(Op::Div);
}


/// AND / OR with LITERAL operands (any construction-time simplification of
/// the logical operators must keep the documented result: always 0 or 1
/// under the documented truthiness), in every literal/column combination.
fn and_or_literal(ka: usize, kb: usize) {
    let a = value_of_kind(ka);
    let b = value_of_kind(kb);
    let row = row_ab(a.clone(), b.clone());
    let want_and = truthy(&a) && truthy(&b);
    let want_or = truthy(&a) || truthy(&b);
    // literal AND/OR column
    let e1 = lit(&a).and(Expr::col("B")).eval(&row);
    let e2 = lit(&a).or(Expr::col("B")).eval(&row);
    // column AND/OR literal
    let e3 = Expr::col("A").and(lit(&b)).eval(&row);
    let e4 = Expr::col("A").or(lit(&b)).eval(&row);
    // literal AND/OR literal
    let e5 = lit(&a).and(lit(&b)).eval(&row);
    let e6 = lit(&a).or(lit(&b)).eval(&row);
    assert!(is_bool(&e1, want_and) && is_bool(&e3, want_and) && is_bool(&e5, want_and), "C13: AND with a literal operand must give the documented 0/1 result");
    assert!(is_bool(&e2, want_or) && is_bool(&e4, want_or) && is_bool(&e6, want_or), "C13: OR with a literal operand must give the documented 0/1 result");
    std::mem::forget(row);
}

#[kani::proof]
#[kani::unwind(4)]
fn c13_and_or_literal_a() {
    and_or_literal(1, 1);
    and_or_literal(1, 3);
    and_or_literal(0, 1);
    kani::cover!(true);
}

#[kani::proof]
#[kani::unwind(4)]
fn c13_and_or_literal_b() {
    and_or_literal(3, 1);
    and_or_literal(2, 4);
    and_or_literal(1, 0);
    kani::cover!(true);
}


// Two unary operators in a row: decided structurally by engine M's constructor_structure law -- the
// depth-3 Kani harnesses ran out of memory (24 GB) on recursive Ast::eval / drop glue.
