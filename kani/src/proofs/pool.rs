//! String-pool kernels.
//!  C08: one `incref` / `decref` step from an ARBITRARY pool state satisfying
//!       the representation invariant (instead of exploring histories).
//!  C01: `write_pool`/`write_data` -> `read_from_pool`/`build_from_data`.
//!  C09: pool reader and pool operations on arbitrary (foreign) states.
//! Pool texts are concrete per harness instance (symbolic string contents
//! are measured out of reach), reference counts and the choice of the
//! operand are symbolic.  Code page: US-ASCII, the one whose codec is project
//! code (encoding_rs is out of reach).
use crate::internal::codepage::CodePage;
use crate::internal::stringpool::{StringPool, StringPoolBuilder, StringRef};
use crate::internal::value::{Value, ValueRef};
use crate::util::*;

const ASCII_ID: u32 = 20127;

fn sref(n: u32) -> StringRef {
    let eb = [(n & 0xff) as u8, ((n >> 8) & 0xff) as u8, ((n >> 16) & 0xff) as u8];
    let mut er: &[u8] = &eb;
    match is_ok_forget(StringRef::read(&mut er, true)) {
        Some(Some(sr)) => sr,
        _ => {
            kani::assume(false);
            unreachable!()
        }
    }
}

/// Build a pool through the real reader from a header with the given texts
/// (each at most 1 byte) and reference counts.
fn mk_pool<const N: usize>(texts: [&'static str; N], rcs: [u16; N], long: bool) -> StringPool {
    let mut header = [0u8; 28];
    let id = ASCII_ID | if long { 0x8000_0000 } else { 0 };
    header[0] = (id & 0xff) as u8;
    header[1] = ((id >> 8) & 0xff) as u8;
    header[2] = ((id >> 16) & 0xff) as u8;
    header[3] = ((id >> 24) & 0xff) as u8;
    let mut data = [0u8; 8];
    let mut dlen = 0;
    let mut i = 0;
    while i < N {
        let t = texts[i].as_bytes();
        header[4 + 4 * i] = t.len() as u8;
        header[4 + 4 * i + 1] = 0;
        header[4 + 4 * i + 2] = (rcs[i] & 0xff) as u8;
        header[4 + 4 * i + 3] = (rcs[i] >> 8) as u8;
        if t.len() == 1 {
            data[dlen] = t[0];
            dlen += 1;
        }
        i += 1;
    }
    let builder = match is_ok_forget(StringPoolBuilder::read_from_pool(ArrReader::new(header, 4 + 4 * N))) {
        Some(b) => b,
        None => {
            kani::assume(false);
            unreachable!()
        }
    };
    match is_ok_forget(builder.build_from_data(ArrReader::new(data, dlen))) {
        Some(p) => p,
        None => {
            kani::assume(false);
            unreachable!()
        }
    }
}

fn text_is(pool: &StringPool, idx: usize, want: &str) -> bool {
    let got = pool.get(sref(idx as u32 + 1)).as_bytes();
    let w = want.as_bytes();
    if got.len() != w.len() {
        return false;
    }
    if w.len() == 1 {
        return got[0] == w[0];
    }
    true
}

/// Reference counts for a pool shape: symbolic (any u16 >= 1) for entries with
/// text, CONCRETE 0 for empty entries (free slots).  A symbolic count on an
/// empty entry -- even one assumed to be 0 -- makes the reader explore its
/// long-string-escape branch with a symbolic 32-bit length (measured: > 5 min).
fn any_rcs<const N: usize>(texts: &[&'static str; N], live_min: u16) -> [u16; N] {
    let mut rcs = [0u16; N];
    let mut i = 0;
    while i < N {
        if !texts[i].is_empty() {
            let r: u16 = kani::any();
            kani::assume(r >= live_min);
            rcs[i] = r;
        }
        i += 1;
    }
    rcs
}

/// representation invariant of a pool state reachable through the API:
/// refcount 0 <=> empty text (free slot).
fn invariant_rc(text: &str, rc: u16) -> bool {
    (rc == 0) == text.is_empty()
}

fn incref_step<const N: usize>(texts: [&'static str; N], s: &'static str, long: bool) {
    let rcs: [u16; N] = any_rcs(&texts, 1);
    // (`long` is concrete per instance: a symbolic flag makes the code-page id
    // read from the header symbolic, and then all 26 code pages -- encoding_rs
    // included -- are explored)
    let mut pool = mk_pool(texts, rcs, long);
    assert!(pool.num_strings() as usize == N);
    let r = pool.incref(String::from(s));
    let idx = (r.number() - 1) as usize;
    let n_after = pool.num_strings() as usize;
    assert!(idx < n_after, "C08: incref returned a reference outside the pool");
    assert!(text_is(&pool, idx, s), "C08: incref returned a reference to an entry holding a different text");
    assert!(n_after == N || (n_after == N + 1 && idx == N), "C08: incref changed the number of entries unexpectedly");
    // exactly the returned entry's count changed, by exactly one, without wrapping
    let mut j = 0;
    while j < n_after {
        let rc_now = pool.refcount(sref(j as u32 + 1));
        if j == idx {
            let before: u16 = if j < N { rcs[j] } else { 0 };
            assert!(before < u16::MAX, "C08: incref incremented a reference count already at the 16-bit cap");
            assert!(rc_now == before + 1, "C08: incref must raise exactly one reference count by exactly one");
            if j < N && before > 0 {
                assert!(text_is(&pool, j, texts[j]), "C08: incref changed the text of a live entry");
            }
        } else {
            assert!(rc_now == rcs[j], "C08: incref changed the reference count of another entry");
            assert!(text_is(&pool, j, texts[j]), "C08: incref changed the text of another entry");
        }
        // invariant re-established
        let live_text_empty = pool.get(sref(j as u32 + 1)).is_empty();
        assert!((rc_now == 0) == live_text_empty, "C08: pool invariant (refcount 0 <=> empty text) broken by incref");
        j += 1;
    }
    assert!(pool.is_modified(), "C01: incref must mark the pool as modified (else it is not saved)");
    kani::cover!(true, "post-state reached");
    std::mem::forget(pool);
}

macro_rules! incref_harness {
    ($name:ident, $texts:expr, $s:expr, $long:expr) => {
        #[kani::proof]
        #[kani::unwind(6)]
        #[kani::stub(std::fmt::format, crate::util::stub_format)]
        fn $name() {
            incref_step($texts, $s, $long);
        }
    };
}

incref_harness!(c08_incref_ab_a, ["a", "b"], "a", false);
incref_harness!(c08_incref_ab_b, ["a", "b"], "b", false);
incref_harness!(c08_incref_aa_a, ["a", "a"], "a", true);
incref_harness!(c08_incref_free_a_a, ["", "a"], "a", false);
incref_harness!(c08_incref_a_free_b, ["a", ""], "b", false);
incref_harness!(c08_incref_a_b, ["a"], "b", false);
incref_harness!(c08_incref_aba_a, ["a", "b", "a"], "a", false);

fn decref_step<const N: usize>(texts: [&'static str; N], long: bool) {
    let rcs: [u16; N] = any_rcs(&texts, 1);
    let mut pool = mk_pool(texts, rcs, long);
    let idx: usize = kani::any();
    kani::assume(idx < N);
    kani::assume(rcs[idx] >= 1); // a live reference, as every stored cell holds
    pool.decref(sref(idx as u32 + 1));
    assert!(pool.num_strings() as usize == N, "C08: decref changed the number of entries");
    let mut j = 0;
    while j < N {
        let rc_now = pool.refcount(sref(j as u32 + 1));
        if j == idx {
            assert!(rc_now == rcs[j] - 1, "C08: decref must lower exactly one reference count by exactly one");
            if rc_now == 0 {
                assert!(pool.get(sref(j as u32 + 1)).is_empty(), "C08: text of an entry whose count reached zero was not cleared");
            } else {
                assert!(text_is(&pool, j, texts[j]), "C08: decref changed the text of a still-live entry");
            }
        } else {
            assert!(rc_now == rcs[j], "C08: decref changed the reference count of another entry");
            assert!(text_is(&pool, j, texts[j]), "C08: decref changed the text of another entry");
        }
        j += 1;
    }
    assert!(pool.is_modified(), "C01: decref must mark the pool as modified");
    kani::cover!(pool.refcount(sref(idx as u32 + 1)) == 0);
    kani::cover!(pool.refcount(sref(idx as u32 + 1)) > 0);
    std::mem::forget(pool);
}

#[kani::proof]
#[kani::unwind(6)]
#[kani::stub(std::fmt::format, crate::util::stub_format)]
fn c08_decref_ab() {
    decref_step(["a", "b"], false);
}

#[kani::proof]
#[kani::unwind(6)]
#[kani::stub(std::fmt::format, crate::util::stub_format)]
fn c08_decref_a_free_a() {
    decref_step(["a", "", "a"], true);
}

/// `ValueRef::create` then `.remove()` restores the pool accounting.
fn value_ref_pairing(kind: usize) {
    let rcs: [u16; 2] = kani::any();
    kani::assume(rcs[0] >= 1 && rcs[1] >= 1);
    let mut pool = mk_pool(["a", "b"], rcs, false);
    let v = value_of_kind(kind);
    let vr = ValueRef::create(v, &mut pool);
    vr.remove(&mut pool);
    assert!(pool.refcount(sref(1)) == rcs[0] && pool.refcount(sref(2)) == rcs[1],
        "C08: create followed by remove must restore every reference count");
    let n = pool.num_strings();
    if n == 3 {
        assert!(pool.refcount(sref(3)) == 0 && pool.get(sref(3)).is_empty(), "C08: a released new entry must be an empty free slot");
    } else {
        assert!(n == 2);
    }
    kani::cover!(n == 2);
    std::mem::forget(pool);
}

#[kani::proof]
#[kani::unwind(6)]
#[kani::stub(std::fmt::format, crate::util::stub_format)]
fn c08_value_ref_pairing() {
    value_ref_pairing(0);
    value_ref_pairing(1);
    value_ref_pairing(3);
}

/// "assert and concretise": the byte must equal `want` (checked by the
/// solver), after which it is overwritten with `want`.  When `want` is a
/// constant during symbolic execution this keeps lengths / code-page ids of
/// the written image concrete for the reader that follows (bytes that went
/// through byteorder's memcpy are otherwise no longer constant-propagated and
/// the reader then explores all 26 code pages and symbolic allocation sizes).
fn pin<const H: usize>(buf: &mut [u8; H], at: usize, want: u8, what: &'static str) {
    assert!(buf[at] == want, "{}", what);
    buf[at] = want;
}

/// Check the written `_StringPool` image against the pool's own state
/// (C08: header = code page id + (encoded length, refcount) per entry) and
/// pin everything except the reference counts.
fn check_and_pin_header<const H: usize>(pool: &StringPool, hdr: &mut FixedSink<H>, long: bool) {
    let n = pool.num_strings() as usize;
    let id = ASCII_ID | if long { 0x8000_0000 } else { 0 };
    assert!(hdr.len == 4 + 4 * n, "C08: _StringPool stream has the wrong size for the number of entries");
    pin(&mut hdr.buf, 0, (id & 0xff) as u8, "C01: code page id in the pool header");
    pin(&mut hdr.buf, 1, ((id >> 8) & 0xff) as u8, "C01: code page id in the pool header");
    pin(&mut hdr.buf, 2, ((id >> 16) & 0xff) as u8, "C01: code page id in the pool header");
    pin(&mut hdr.buf, 3, ((id >> 24) & 0xff) as u8, "C01: code page id / reference-width bit in the pool header");
    let mut j = 0;
    while j < n {
        let r = sref(j as u32 + 1);
        let l = pool.get(r).len();
        pin(&mut hdr.buf, 4 + 4 * j, l as u8, "C08: length field of a pool entry differs from its text");
        pin(&mut hdr.buf, 4 + 4 * j + 1, 0, "C08: length field of a pool entry differs from its text");
        let rc = pool.refcount(r);
        assert!(hdr.buf[4 + 4 * j + 2] == (rc & 0xff) as u8 && hdr.buf[4 + 4 * j + 3] == (rc >> 8) as u8,
            "C08: reference count field of a pool entry differs from the pool state");
        // format description: (length 0, refcount != 0) is the escape that introduces a string
        // longer than 64 KiB -- it cannot stand for a live entry with empty text
        assert!(!(l == 0 && rc != 0), "C01/C08: a live entry with empty text is written as (0, refcount), which readers take for the long-string escape");
        j += 1;
    }
}

fn check_and_pin_data<const D: usize>(pool: &StringPool, dat: &mut FixedSink<D>) {
    let n = pool.num_strings() as usize;
    let mut off = 0;
    let mut j = 0;
    while j < n {
        let t = pool.get(sref(j as u32 + 1)).as_bytes();
        if t.len() == 1 {
            pin(&mut dat.buf, off, t[0], "C08: _StringData does not hold the entry's text at its position");
            off += 1;
        } else {
            assert!(t.len() == 0);
        }
        j += 1;
    }
    assert!(dat.len == off, "C08: _StringData holds bytes that belong to no entry");
}

/// C01/C08, write side: the `_StringPool` / `_StringData` images that
/// `write_pool` / `write_data` emit are exactly the format description's
/// encoding of the pool state (code page id, reference-width bit, encoded
/// length and reference count per entry, texts concatenated in order).
/// The read side of the same description is `c02_pool_read_*`; a direct
/// write->read composition in one harness is out of reach (bytes that went
/// through byteorder's memcpy are no longer constant-propagated, the reader
/// then explores all 26 code pages: > 10 min, measured).
fn pool_image<const N: usize>(texts: [&'static str; N], long: bool) {
    let rcs: [u16; N] = any_rcs(&texts, 1);
    let pool = mk_pool(texts, rcs, long);
    let mut hdr = FixedSink::<32>::new();
    let mut dat = FixedSink::<8>::new();
    assert!(is_ok_forget(pool.write_pool(&mut hdr)).is_some(), "C01: write_pool failed");
    assert!(is_ok_forget(pool.write_data(&mut dat)).is_some(), "C01: write_data failed");
    check_and_pin_header(&pool, &mut hdr, long);
    check_and_pin_data(&pool, &mut dat);
    kani::cover!(true);
    std::mem::forget(pool);
}

#[kani::proof]
#[kani::unwind(8)]
#[kani::stub(std::fmt::format, crate::util::stub_format)]
fn c01_pool_image_ab() {
    pool_image(["a", "b"], false);
}

#[kani::proof]
#[kani::unwind(8)]
#[kani::stub(std::fmt::format, crate::util::stub_format)]
fn c01_pool_image_a_free_b_long() {
    pool_image(["a", "", "b"], true);
}

/// C02/C01, read side: a header + data image written from the format
/// description (by `mk_pool`) is read to exactly the described state.
fn pool_read<const N: usize>(texts: [&'static str; N], long: bool) {
    // any counts an independent encoder may emit (including 0 for an entry that still has text);
    // empty entries have count 0 -- (0, n>0) is the long-string escape, not an entry
    let rcs: [u16; N] = any_rcs(&texts, 0);
    let pool = mk_pool(texts, rcs, long);
    assert!(pool.num_strings() as usize == N, "C02: number of pool entries read differs from the encoded header");
    assert!(pool.long_string_refs() == long, "C02: reference width read differs from the header bit");
    assert!(pool.codepage() == CodePage::UsAscii, "C02: code page read differs from the header id");
    assert!(!pool.is_modified(), "C16: a pool that was only read must not be marked modified");
    let mut j = 0;
    while j < N {
        assert!(pool.refcount(sref(j as u32 + 1)) == rcs[j], "C02: reference count read differs from the encoded one");
        assert!(text_is(&pool, j, texts[j]), "C02: pool text read differs from the encoded one");
        j += 1;
    }
    // references past the end are tolerated by the read accessors (C09)
    assert!(pool.get(sref(N as u32 + 1)).is_empty());
    assert!(pool.refcount(sref(N as u32 + 7)) == 0);
    kani::cover!(true);
    std::mem::forget(pool);
}

#[kani::proof]
#[kani::unwind(8)]
#[kani::stub(std::fmt::format, crate::util::stub_format)]
fn c02_pool_read_ab() {
    pool_read(["a", "b"], false);
}

#[kani::proof]
#[kani::unwind(8)]
#[kani::stub(std::fmt::format, crate::util::stub_format)]
fn c02_pool_read_a_free_a_long() {
    pool_read(["a", "", "a"], true);
}

/// C01/C08: interning a string VALUE the API accepts keeps the pool in the
/// representation invariant that the image law above (`c01_pool_image_*`)
/// assumes -- in particular no live entry may hold the empty string, because
/// (length 0, refcount != 0) is the format's long-string escape and corrupts
/// the saved pool.  The empty string and null are one value in the format, so
/// `""` must be stored as null.
fn value_intern(kind: usize, fresh: bool) {
    let mut pool = if fresh {
        StringPool::new(CodePage::UsAscii)
    } else {
        let rcs: [u16; 2] = kani::any();
        kani::assume(rcs[0] >= 1 && rcs[1] >= 1);
        mk_pool(["a", "b"], rcs, false)
    };
    let v = value_of_kind(kind);
    let vr = ValueRef::create(v, &mut pool);
    let want = STRS[kind - 2];
    match vr {
        ValueRef::Str(r) => {
            assert!(pool.refcount(r) >= 1, "C08: an interned value must hold a reference");
            let got = pool.get(r).as_bytes();
            assert!(!got.is_empty(), "C01/C08: a live pool entry holds the empty string (saved as (0, refcount): the long-string escape; the file cannot be reopened)");
            assert!(got.len() == want.len(), "C01: interned text differs from the value");
            if want.len() == 1 {
                assert!(got[0] == want.as_bytes()[0], "C01: interned text differs from the value");
            }
            // and it reads back as the same value
            match vr.to_value(&pool) {
                Value::Str(ref t) => assert!(t.len() == want.len(), "C01: value read back differs"),
                _ => panic!("C01: value read back differs"),
            }
        }
        ValueRef::Null => assert!(want.is_empty(), "C01: a non-empty string value was stored as null"),
        _ => panic!("C01: string value stored as an integer"),
    }
    kani::cover!(true);
    std::mem::forget(pool);
}

#[kani::proof]
#[kani::unwind(8)]
#[kani::stub(std::fmt::format, crate::util::stub_format)]
fn c01_value_intern_empty() {
    value_intern(2, true);
    value_intern(2, false);
}

#[kani::proof]
#[kani::unwind(8)]
#[kani::stub(std::fmt::format, crate::util::stub_format)]
fn c01_value_intern_a() {
    value_intern(3, true);
    value_intern(3, false);
}

/// C15: the pool writers under the faulty buffered medium.
#[kani::proof]
#[kani::unwind(8)]
#[kani::stub(std::fmt::format, crate::util::stub_format)]
fn c15_write_pool() {
    let rcs: [u16; 2] = kani::any();
    kani::assume(rcs[0] >= 1 && rcs[1] >= 1);
    let pool = mk_pool(["a", "b"], rcs, false);
    let mut medium = Medium::new();
    let ok = {
        let w = FaultyBuffered::new(&mut medium);
        is_ok_forget(pool.write_pool(w)).is_some()
    };
    if ok {
        assert!(!medium.silent_loss, "C15: write_pool returned Ok although the deferred flush of its writer failed");
        assert!(medium.committed == medium.accepted, "C15: write_pool returned Ok with bytes that never reached the medium");
    }
    kani::cover!(ok);
    kani::cover!(!ok);
    std::mem::forget(pool);
}

#[kani::proof]
#[kani::unwind(8)]
#[kani::stub(std::fmt::format, crate::util::stub_format)]
fn c15_write_data() {
    let rcs: [u16; 2] = kani::any();
    kani::assume(rcs[0] >= 1 && rcs[1] >= 1);
    let pool = mk_pool(["a", "b"], rcs, false);
    let mut medium = Medium::new();
    let ok = {
        let w = FaultyBuffered::new(&mut medium);
        is_ok_forget(pool.write_data(w)).is_some()
    };
    if ok {
        assert!(!medium.silent_loss, "C15: write_data returned Ok although the deferred flush of its writer failed");
        assert!(medium.committed == medium.accepted, "C15: write_data returned Ok with bytes that never reached the medium");
    }
    kani::cover!(ok);
    kani::cover!(!ok);
    std::mem::forget(pool);
}

// ---------------------------------------------------------------------------
// C09: pool reader and pool operations on FOREIGN states (no invariant)
// ---------------------------------------------------------------------------

/// `read_from_pool` on arbitrary header bytes never panics (unknown code page
/// ids, odd lengths, the long-string escape cut short by end of stream).
#[kani::proof]
#[kani::unwind(8)]
#[kani::stub(std::fmt::format, crate::util::stub_format)]
fn c09_pool_header_total() {
    let hdr: [u8; 14] = kani::any();
    let len: usize = kani::any();
    kani::assume(len <= 14);
    let r = is_ok_forget(StringPoolBuilder::read_from_pool(ArrReader::new(hdr, len)));
    kani::cover!(r.is_some());
    kani::cover!(r.is_none());
    std::mem::forget(r);
}

/// `build_from_data` when the data stream is shorter than the header claims:
/// an error, never a panic.  Entry lengths concrete (1 and 2 bytes; symbolic
/// lengths mean symbolic allocation sizes: > 15 min), the number of available
/// data bytes and the reference counts symbolic.
#[kani::proof]
#[kani::unwind(8)]
#[kani::stub(std::fmt::format, crate::util::stub_format)]
fn c09_pool_data_short() {
    let rc: [u16; 2] = kani::any();
    let mut header = [0u8; 12];
    header[0] = (ASCII_ID & 0xff) as u8;
    header[1] = ((ASCII_ID >> 8) & 0xff) as u8;
    header[4] = 1;
    header[6] = (rc[0] & 0xff) as u8;
    header[7] = (rc[0] >> 8) as u8;
    header[8] = 2;
    header[10] = (rc[1] & 0xff) as u8;
    header[11] = (rc[1] >> 8) as u8;
    let b = is_ok_forget(StringPoolBuilder::read_from_pool(ArrReader::new(header, 12)));
    assert!(b.is_some());
    let avail: usize = kani::any();
    kani::assume(avail <= 4);
    let data = [b'a', b'b', b'c', b'd'];
    let r = is_ok_forget(b.unwrap().build_from_data(ArrReader::new(data, avail)));
    assert!(r.is_some() == (avail >= 3), "C09: build_from_data must fail exactly when the data stream is too short");
    kani::cover!(r.is_some());
    kani::cover!(r.is_none());
    std::mem::forget(r);
}

/// A foreign pool state: ANY reference counts (zero count with text, counted
/// empty free slots excluded only where the header format itself cannot
/// express them).  `get` / `refcount` tolerate every reference 1..0xFFFFFF.
#[kani::proof]
#[kani::unwind(8)]
#[kani::stub(std::fmt::format, crate::util::stub_format)]
fn c09_pool_read_ops_total() {
    let rcs: [u16; 2] = kani::any();
    let pool = mk_pool(["a", "b"], rcs, true);
    let n: u32 = kani::any();
    kani::assume(n >= 1 && n <= 0xff_ffff);
    let r = sref(n);
    let t = pool.get(r);
    let c = pool.refcount(r);
    if n > 2 {
        assert!(t.is_empty() && c == 0, "C09: a dangling reference must read as the empty string with count 0");
    }
    kani::cover!(n > 2);
    kani::cover!(n <= 2);
    std::mem::forget(pool);
}

/// Mutating operations on a foreign state, restricted to the region where no
/// known finding applies: decref of an in-range reference whose count is >= 1,
/// incref when no zero-count slot holds text.  Must not panic.
#[kani::proof]
#[kani::unwind(8)]
#[kani::stub(std::fmt::format, crate::util::stub_format)]
fn c09_pool_write_ops_guarded() {
    let rcs: [u16; 2] = kani::any();
    let mut pool = mk_pool(["a", "b"], rcs, true);
    let idx: usize = kani::any();
    kani::assume(idx < 2);
    if kani::any() {
        kani::assume(rcs[idx] >= 1); // outside known finding C09-decref-zero-count
        pool.decref(sref(idx as u32 + 1));
    } else {
        kani::assume(rcs[0] >= 1 && rcs[1] >= 1); // outside known finding C09-incref-zero-count-with-text
        let _ = pool.incref(String::from("b"));
    }
    kani::cover!(true);
    std::mem::forget(pool);
}

/// KNOWN FINDING witnesses (expected to fail; see /verif/known_findings.json).
/// A cell of a foreign file may reference past the end of the pool, or an
/// entry whose stored count is zero; deleting/updating such a row calls
/// `decref` on it.
#[kani::proof]
#[kani::unwind(8)]
#[kani::stub(std::fmt::format, crate::util::stub_format)]
fn c09_kf_decref_dangling() {
    let rcs: [u16; 2] = kani::any();
    let mut pool = mk_pool(["a", "b"], rcs, true);
    let n: u32 = kani::any();
    kani::assume(n >= 3 && n <= 0xff_ffff);
    pool.decref(sref(n));
    std::mem::forget(pool);
}

#[kani::proof]
#[kani::unwind(8)]
#[kani::stub(std::fmt::format, crate::util::stub_format)]
fn c09_kf_decref_zero_count() {
    let rc1: u16 = kani::any();
    let mut pool = mk_pool(["a", "b"], [0, rc1], true);
    pool.decref(sref(1));
    std::mem::forget(pool);
}

#[kani::proof]
#[kani::unwind(8)]
#[kani::stub(std::fmt::format, crate::util::stub_format)]
fn c09_kf_incref_zero_count_with_text() {
    let rc1: u16 = kani::any();
    let mut pool = mk_pool(["a", "b"], [0, rc1], true);
    let _ = pool.incref(String::from("c"));
    std::mem::forget(pool);
}

// ---------------------------------------------------------------------------
// C02: `_StringPool` header decoding on SYMBOLIC header bytes vs. the format
// description, observed through a probe reader (the builder's fields are
// private): build_from_data asks the data stream for exactly `length` bytes
// per entry, in order; the probe records the first non-empty request and fails
// it, so no symbolic-length text is ever built.
// ---------------------------------------------------------------------------

struct ProbeReader {
    first_request: u64,
    requests: usize,
}

impl std::io::Read for ProbeReader {
    fn read(&mut self, out: &mut [u8]) -> std::io::Result<usize> {
        if out.len() == 0 {
            return Ok(0);
        }
        self.requests += 1;
        if self.requests == 1 {
            self.first_request = out.len() as u64;
        }
        Err(std::io::Error::from(std::io::ErrorKind::Other))
    }
    fn read_exact(&mut self, out: &mut [u8]) -> std::io::Result<()> {
        if out.len() == 0 {
            return Ok(());
        }
        match self.read(out) {
            Ok(_) => Ok(()),
            Err(e) => Err(e),
        }
    }
}

/// Reference decoder of the header records (format description): records of
/// two u16 (length, refcount); (0, n != 0) is the escape: the string length is
/// (n << 16) | next.length and its refcount is next.refcount.
/// Returns (number of entries, first non-zero length, index of it) for a
/// header of `nrec` complete 4-byte records.
fn ref_decode(rec: &[[u16; 2]; 3], nrec: usize) -> (usize, u64, bool) {
    let mut entries = 0usize;
    let mut first_len: u64 = 0;
    let mut found = false;
    let mut truncated = false;
    let mut i = 0;
    while i < nrec {
        let (l, r) = (rec[i][0], rec[i][1]);
        let mut len = l as u64;
        if l == 0 && r != 0 {
            if i + 1 < nrec {
                len = ((r as u64) << 16) | rec[i + 1][0] as u64;
                i += 1;
            } else {
                truncated = true; // escape cut short by the end of the stream: reader reports an error
                break;
            }
        }
        entries += 1;
        if !found && len != 0 {
            first_len = len;
            found = true;
        }
        i += 1;
    }
    let _ = truncated;
    (entries, first_len, found)
}

/// Concrete record shapes (a symbolic escape marker makes the number of pool
/// entries symbolic: > 15 min); honestly a table of runs decided by CBMC.
fn header_shape(rec: [[u16; 2]; 3], nrec: usize, long: bool) {
    let mut header = [0u8; 16];
    let id = ASCII_ID | if long { 0x8000_0000 } else { 0 };
    header[0] = (id & 0xff) as u8;
    header[1] = ((id >> 8) & 0xff) as u8;
    header[2] = ((id >> 16) & 0xff) as u8;
    header[3] = ((id >> 24) & 0xff) as u8;
    let mut i = 0;
    while i < nrec {
        header[4 + 4 * i] = (rec[i][0] & 0xff) as u8;
        header[4 + 4 * i + 1] = (rec[i][0] >> 8) as u8;
        header[4 + 4 * i + 2] = (rec[i][1] & 0xff) as u8;
        header[4 + 4 * i + 3] = (rec[i][1] >> 8) as u8;
        i += 1;
    }
    let (entries, first_len, any_text) = ref_decode(&rec, nrec);
    let b = is_ok_forget(StringPoolBuilder::read_from_pool(ArrReader::new(header, 4 + 4 * nrec)));
    assert!(b.is_some(), "C02: a well-formed pool header is refused");
    let mut probe = ProbeReader { first_request: 0, requests: 0 };
    let r = is_ok_forget(b.unwrap().build_from_data(&mut probe));
    if any_text {
        assert!(r.is_none(), "C02: pool entries with text were dropped by the header reader (no data was requested for them)");
        assert!(probe.first_request == first_len, "C02: length of a pool entry read differs from the encoded length (long-string escape: (high << 16) | low)");
    } else {
        match r {
            Some(pool) => {
                assert!(pool.num_strings() as usize == entries, "C02: number of pool entries read differs from the encoded header");
                std::mem::forget(pool);
            }
            None => panic!("C02: a well-formed pool of empty entries is refused"),
        }
    }
}

#[kani::proof]
#[kani::unwind(8)]
#[kani::stub(std::fmt::format, crate::util::stub_format)]
fn c02_pool_header_shapes() {
    // plain entries
    header_shape([[3, 1], [0, 0], [0, 0]], 1, false);
    header_shape([[0, 0], [5, 2], [0, 0]], 2, true);
    // long-string escape: length = (high << 16) | low, every class of low word
    header_shape([[0, 1], [0, 1], [0, 0]], 2, false); // exactly 65536
    header_shape([[0, 1], [1, 7], [0, 0]], 2, false); // 65537
    header_shape([[0, 2], [0xffff, 1], [0, 0]], 2, true); // 0x2ffff
    header_shape([[0, 3], [0, 0xffff], [0, 0]], 2, false); // 0x30000, refcount at the cap
    // an empty free slot before a long string, and two escapes in a row
    header_shape([[0, 0], [0, 1], [0, 1]], 3, false);
    kani::cover!(true);
}

/// C09/C14: a pool under the US-ASCII code page whose data holds a byte >= 0x80
/// (a hostile or foreign file): decoding must replace it (U+FFFD), never panic.
#[kani::proof]
#[kani::unwind(8)]
#[kani::stub(std::fmt::format, crate::util::stub_format)]
fn c09_pool_data_non_ascii() {
    let rc: u16 = kani::any();
    let mut header = [0u8; 8];
    header[0] = (ASCII_ID & 0xff) as u8;
    header[1] = ((ASCII_ID >> 8) & 0xff) as u8;
    header[4] = 2;
    header[6] = (rc & 0xff) as u8;
    header[7] = (rc >> 8) as u8;
    let b = is_ok_forget(StringPoolBuilder::read_from_pool(ArrReader::new(header, 8)));
    assert!(b.is_some());
    let data = [b'a', 0xe9u8];
    let r = is_ok_forget(b.unwrap().build_from_data(ArrReader::new(data, 2)));
    match r {
        Some(pool) => {
            let t = pool.get(sref(1)).as_bytes();
            assert!(t.len() == 4 && t[0] == b'a' && t[1] == 0xef && t[2] == 0xbf && t[3] == 0xbd, "C14: a non-ASCII byte under US-ASCII must decode to U+FFFD");
            std::mem::forget(pool);
        }
        None => panic!("C09: a pool with a non-ASCII byte under the US-ASCII code page is refused"),
    }
    kani::cover!(true);
}

/// C02: an independently encoded pool may contain an UNUSED entry (count 0)
/// that still has text; the reader must consume its bytes so that the entries
/// after it are cut from the right offsets.  (Count concrete 0: with a symbolic
/// count the string lengths downstream become symbolic.)
#[kani::proof]
#[kani::unwind(8)]
#[kani::stub(std::fmt::format, crate::util::stub_format)]
fn c02_pool_read_zero_count_with_text() {
    let rc1: u16 = kani::any();
    kani::assume(rc1 >= 1);
    let pool = mk_pool(["a", "b"], [0, rc1], false);
    assert!(pool.num_strings() == 2, "C02: number of pool entries read differs from the encoded header");
    assert!(text_is(&pool, 1, "b"), "C02: the entry after an unused entry with text is read from the wrong offset");
    assert!(pool.refcount(sref(2)) == rc1 && pool.refcount(sref(1)) == 0, "C02: reference counts read differ from the encoded ones");
    let t0 = pool.get(sref(1)).as_bytes();
    assert!(t0.len() == 0 || (t0.len() == 1 && t0[0] == b'a'), "C02: an unused entry reads as something other than its own text or empty");
    kani::cover!(true);
    std::mem::forget(pool);
}
