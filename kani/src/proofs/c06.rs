//! C06 -- a created table reopens with the schema it was created with:
//! the bit-field kernel (`Column::bitfield` -> `with_bitfield`) and the
//! category-name kernel.
use crate::gen_premises::C06_W_ACC;
use crate::internal::category::Category;
use crate::internal::column::{Column, ColumnType};
use crate::internal::value::Value;
use crate::util::*;

/// "accepted => unaltered": every column definition that `create_table`
/// accepts decodes from its `_Columns.Type` bit-field to the same type, string
/// width and flags.  "Accepted" = (a) the bit-field is storable in the
/// catalogue's Int16 `Type` cell (the real `is_valid_value` of the real column
/// definition) and (b) width <= the largest width the real `create_table`
/// accepts, measured natively by the driver on this run (C06_W_ACC).
#[kani::proof]
#[kani::unwind(6)]
#[kani::stub(std::fmt::format, crate::util::stub_format)]
fn c06_bitfield_roundtrip() {
    let k: u8 = kani::any();
    kani::assume(k < 3);
    let width: usize = kani::any();
    let localizable: bool = kani::any();
    let nullable: bool = kani::any();
    let primary: bool = kani::any();
    let cat: u8 = kani::any();
    kani::assume(cat < 3);
    let mut b = Column::build("X");
    if localizable {
        b = b.localizable();
    }
    if nullable {
        b = b.nullable();
    }
    if primary {
        b = b.primary_key();
    }
    if cat == 1 {
        b = b.category(Category::Binary);
    } else if cat == 2 {
        b = b.category(Category::Text);
    }
    let col = match k {
        0 => b.int16(),
        1 => b.int32(),
        _ => b.string(width),
    };
    let bits = col.bitfield();
    // premise (a): storable in the catalogue's Type cell
    let type_col = Column::build("Type").int16();
    let storable = type_col.is_valid_value(&Value::Int(bits));
    // premise (b): width accepted by create_table (measured natively)
    let width_ok = k != 2 || width <= C06_W_ACC;
    if storable && width_ok {
        match is_ok_forget(Column::build("X").with_bitfield(bits)) {
            Some(back) => {
                assert!(back.coltype() == col.coltype(), "C06: column type / string width altered by the bit-field round trip");
                assert!(back.is_localizable() == localizable, "C06: localizable flag altered");
                assert!(back.is_nullable() == nullable, "C06: nullable flag altered");
                assert!(back.is_primary_key() == primary, "C06: primary-key flag altered");
                std::mem::forget(back);
            }
            None => panic!("C06: an accepted column definition does not decode from its own bit-field"),
        }
    }
    kani::cover!(storable && width_ok && k == 2 && width == 255);
    kani::cover!(storable && width_ok && k == 1);
    kani::cover!(!storable);
    std::mem::forget(col);
    std::mem::forget(type_col);
}

/// Every category survives `as_str()` -> `parse()` (what `_Validation` stores).
#[kani::proof]
#[kani::unwind(30)]
#[kani::stub(std::fmt::format, crate::util::stub_format)]
fn c06_category_name_roundtrip() {
    let all = Category::all();
    assert!(all.len() == 26, "C06: number of categories changed (harness bound is 26)");
    let mut i = 0;
    while i < all.len() {
        let c = all[i];
        let s = c.as_str();
        match is_ok_forget(s.parse::<Category>()) {
            Some(back) => assert!(back == c, "C06: category name does not parse back to the same category"),
            None => panic!("C06: category name does not parse"),
        }
        i += 1;
    }
    kani::cover!(true);
    std::mem::forget(all);
}
