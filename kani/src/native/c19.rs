//! Native replay for C19: build the (parent, slot, child) expression through
//! the public constructors, print it with the real Display, re-read the text
//! with an independent precedence parser (ladder of the property statement,
//! binary levels left-associative) and look for a row on which the original
//! and the re-read expression evaluate differently.
use super::*;
use crate::internal::column::Column;
use crate::internal::expr::Expr;
use crate::internal::table::{Row, Table};
use crate::internal::value::Value;

#[derive(Clone, Debug, PartialEq)]
enum T {
    Col(String),
    Un(&'static str, Box<T>),
    Bin(&'static str, Box<T>, Box<T>),
}

fn build(t: &T) -> Expr {
    match t {
        T::Col(n) => Expr::col(n.as_str()),
        T::Un(op, a) => {
            let a = build(a);
            match *op {
                "Neg" => -a,
                "BitNot" => a.bitinv(),
                _ => a.not(),
            }
        }
        T::Bin(op, a, b) => {
            let (a, b) = (build(a), build(b));
            match *op {
                "Eq" => a.eq(b),
                "Ne" => a.ne(b),
                "Lt" => a.lt(b),
                "Le" => a.le(b),
                "Gt" => a.gt(b),
                "Ge" => a.ge(b),
                "Add" => a + b,
                "Sub" => a - b,
                "Mul" => a * b,
                "Div" => a / b,
                "BitAnd" => a & b,
                "BitOr" => a | b,
                "BitXor" => a ^ b,
                "Shl" => a << b,
                "Shr" => a >> b,
                "And" => a.and(b),
                _ => a.or(b),
            }
        }
    }
}

fn level(op: &str) -> u8 {
    match op {
        "Or" => 1,
        "And" => 2,
        "BoolNot" => 3,
        "Eq" | "Ne" | "Lt" | "Le" | "Gt" | "Ge" => 4,
        "BitOr" => 5,
        "BitXor" => 6,
        "BitAnd" => 7,
        "Shl" | "Shr" => 8,
        "Add" | "Sub" => 9,
        "Mul" | "Div" => 10,
        _ => 11,
    }
}

fn tokenize(s: &str) -> Vec<String> {
    let b: Vec<char> = s.chars().collect();
    let mut out = Vec::new();
    let mut i = 0;
    while i < b.len() {
        let c = b[i];
        if c == ' ' {
            i += 1;
        } else if c.is_ascii_alphanumeric() || c == '_' {
            let mut j = i;
            while j < b.len() && (b[j].is_ascii_alphanumeric() || b[j] == '_' || b[j] == '.') {
                j += 1;
            }
            out.push(b[i..j].iter().collect());
            i = j;
        } else {
            let two: String = b[i..(i + 2).min(b.len())].iter().collect();
            if ["<=", ">=", "!=", "<<", ">>"].contains(&two.as_str()) {
                out.push(two);
                i += 2;
            } else {
                out.push(c.to_string());
                i += 1;
            }
        }
    }
    out
}

fn bin_of(tok: &str) -> Option<&'static str> {
    Some(match tok {
        "OR" => "Or",
        "AND" => "And",
        "=" => "Eq",
        "!=" => "Ne",
        "<" => "Lt",
        "<=" => "Le",
        ">" => "Gt",
        ">=" => "Ge",
        "|" => "BitOr",
        "^" => "BitXor",
        "&" => "BitAnd",
        "<<" => "Shl",
        ">>" => "Shr",
        "+" => "Add",
        "-" => "Sub",
        "*" => "Mul",
        "/" => "Div",
        _ => return None,
    })
}

struct P {
    toks: Vec<String>,
    pos: usize,
}

impl P {
    /// precedence climbing: parse an expression whose operators all bind at
    /// least as tightly as `min`.
    fn expr(&mut self, min: u8) -> Option<T> {
        let mut lhs = self.prefix(min)?;
        loop {
            let op = match self.toks.get(self.pos).and_then(|t| bin_of(t)) {
                Some(op) => op,
                None => break,
            };
            let l = level(op);
            if l < min {
                break;
            }
            self.pos += 1;
            let rhs = self.expr(l + 1)?; // left-associative
            lhs = T::Bin(op, Box::new(lhs), Box::new(rhs));
        }
        Some(lhs)
    }

    fn prefix(&mut self, min: u8) -> Option<T> {
        let t = self.toks.get(self.pos)?.clone();
        match t.as_str() {
            "NOT" => {
                // NOT sits at level 3: it may only start an operand of a looser operator
                if min > 3 {
                    return None;
                }
                self.pos += 1;
                let a = self.expr(3)?;
                Some(T::Un("BoolNot", Box::new(a)))
            }
            "-" | "~" => {
                self.pos += 1;
                let a = self.expr(11)?;
                Some(T::Un(if t == "-" { "Neg" } else { "BitNot" }, Box::new(a)))
            }
            "(" => {
                self.pos += 1;
                let e = self.expr(1)?;
                if self.toks.get(self.pos).map(|s| s.as_str()) != Some(")") {
                    return None;
                }
                self.pos += 1;
                Some(e)
            }
            _ => {
                self.pos += 1;
                Some(T::Col(t))
            }
        }
    }
}

fn parse(s: &str) -> Option<T> {
    let mut p = P { toks: tokenize(s), pos: 0 };
    let e = p.expr(1)?;
    if p.pos == p.toks.len() {
        Some(e)
    } else {
        None
    }
}

fn rows() -> Vec<Row> {
    let dom = [Value::Null, Value::Int(0), Value::Int(1), Value::Int(-1), Value::Int(2), Value::Int(5), Value::from(""), Value::from("a")];
    let table = Table::new(
        "T".to_string(),
        vec![Column::build("A").nullable().int32(), Column::build("B").nullable().int32(), Column::build("C").nullable().int32()],
        false,
    );
    let mut out = Vec::new();
    for a in dom.iter() {
        for b in dom.iter() {
            for c in dom.iter() {
                out.push(Row::new(table.clone(), vec![a.clone(), b.clone(), c.clone()]));
            }
        }
    }
    out
}

fn leak(s: &str) -> &'static str {
    Box::leak(s.to_string().into_boxed_str())
}

#[test]
fn replay_c19() {
    let m = inputs();
    let parent = leak(m.get("parent").map(|s| s.as_str()).unwrap_or("Eq"));
    let child = leak(m.get("child").map(|s| s.as_str()).unwrap_or("BoolNot"));
    let slot: usize = m.get("slot").and_then(|s| s.parse().ok()).unwrap_or(0);
    let unary = |op: &str| op == "Neg" || op == "BitNot" || op == "BoolNot";
    let child_t = if unary(child) {
        T::Un(child, Box::new(T::Col("A".into())))
    } else {
        T::Bin(child, Box::new(T::Col("A".into())), Box::new(T::Col("B".into())))
    };
    let tree = if unary(parent) {
        T::Un(parent, Box::new(child_t))
    } else if slot == 0 {
        T::Bin(parent, Box::new(child_t), Box::new(T::Col("C".into())))
    } else {
        T::Bin(parent, Box::new(T::Col("C".into())), Box::new(child_t))
    };
    let original = build(&tree);
    let printed = original.to_string();
    println!("OUT printed={}", printed);
    match parse(&printed) {
        None => {
            println!("OUT reparsed=<does not parse under the ladder>");
            println!("OUT differs=1");
            println!("OUT witness_row=n/a (text is not an expression of the grammar)");
        }
        Some(t2) => {
            println!("OUT reparsed={:?}", t2);
            let e2 = build(&t2);
            let mut differs = 0;
            for row in rows() {
                let (v1, v2) = (original.eval(&row), e2.eval(&row));
                if v1 != v2 {
                    differs = 1;
                    println!("OUT witness_row=A={:?} B={:?} C={:?}: original {:?}, re-read {:?}", row[0], row[1], row[2], v1, v2);
                    break;
                }
            }
            println!("OUT differs={}", differs);
            if differs == 0 {
                println!("OUT witness_row=none (same value on all {} rows; trees {})", rows().len(), if t2 == tree { "equal" } else { "differ" });
            }
        }
    }
}

/// join operands: anything but a bare table must be printed as a parenthesised sub-select
#[test]
fn replay_c19_join() {
    use crate::internal::query::Select;
    let on = || Expr::col("A.K").eq(Expr::col("B.K"));
    let mut bad = Vec::new();
    let q1 = Select::table("A").inner_join(Select::table("B").columns(&["X"]), on()).to_string();
    if !q1.contains("(SELECT X FROM B)") {
        bad.push(format!("projection lost: {}", q1));
    }
    let q2 = Select::table("A").left_join(Select::table("B").with(Expr::col("X").gt(Expr::integer(1))), on()).to_string();
    if !q2.contains("(SELECT * FROM B WHERE X > 1)") {
        bad.push(format!("condition lost: {}", q2));
    }
    let q3 = Select::table("A").columns(&["K"]).inner_join(Select::table("B"), on()).to_string();
    if !q3.contains("(SELECT K FROM A)") {
        bad.push(format!("left projection lost: {}", q3));
    }
    let q4 = Select::table("A").inner_join(Select::table("B").inner_join(Select::table("C"), on()), on()).to_string();
    if !q4.contains("INNER JOIN (SELECT * FROM B INNER JOIN C") {
        bad.push(format!("nested join not parenthesised: {}", q4));
    }
    println!("OUT differs={}", if bad.is_empty() { 0 } else { 1 });
    println!("OUT witness={}", bad.join(" | "));
}
