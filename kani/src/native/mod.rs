//! Native replay entry points (plain `cargo test`, no Kani): solver
//! counterexamples from engine M are re-run here against the real code, with
//! `pub(crate)` access, before anything is reported.  Inputs come from the
//! environment variable VERIF_REPLAY ("k=v;k=v"), outputs are printed as
//! `OUT key=value` lines.
#![cfg(test)]

use std::collections::HashMap;

fn inputs() -> HashMap<String, String> {
    let mut m = HashMap::new();
    if let Ok(s) = std::env::var("VERIF_REPLAY") {
        for kv in s.split(';') {
            if let Some((k, v)) = kv.split_once('=') {
                m.insert(k.to_string(), v.to_string());
            }
        }
    }
    m
}

fn get_i128(m: &HashMap<String, String>, k: &str) -> Option<i128> {
    m.get(k).and_then(|v| v.parse::<i128>().ok())
}

mod c01;
mod c02;
mod c11;
mod c13;
mod c14;
mod c15;
mod c18;
mod c19;
mod c20;
mod premises;
mod protocol;
