//! Native replay for C11's alphabet law, through the public(crate) encode/decode.
use super::*;
use crate::internal::streamname;

const ALPHABET: &str = "0123456789ABCDEFGHIJKLMNOPQRSTUVWXYZabcdefghijklmnopqrstuvwxyz._";

#[test]
fn replay_c11() {
    let m = inputs();
    let mut differs = 0;
    let mut witness = String::new();
    if let Some(c) = get_i128(&m, "c") {
        if let Some(ch) = char::from_u32(c as u32) {
            let name: String = std::iter::once(ch).collect();
            let enc = streamname::encode(&name, false);
            let (dec, is_table) = streamname::decode(&enc);
            let packable = ALPHABET.contains(ch);
            let packed = enc.chars().next().map(|e| (0x3800..0x4840).contains(&(e as u32))).unwrap_or(false);
            if dec != name || is_table || (packable != packed && !(0x3800..0x4840).contains(&(ch as u32))) {
                differs = 1;
                witness = format!("{:?} encodes to {:?} and decodes to {:?} (packable: {}, packed: {})", name, enc, dec, packable, packed);
            }
        }
    }
    if let Some(v) = get_i128(&m, "v") {
        let want = ALPHABET.chars().nth(v as usize).unwrap();
        let enc: String = std::iter::once(char::from_u32(0x4800 + v as u32).unwrap()).collect();
        let (dec, _) = streamname::decode(&enc);
        let back = streamname::encode(&dec, false);
        if dec.chars().next() != Some(want) || back != enc {
            differs = 1;
            witness = format!("value {} decodes to {:?} (format: {:?}) and re-encodes to {:?}", v, dec, want, back);
        }
    }
    println!("OUT differs={}", differs);
    println!("OUT witness={}", witness);
}
