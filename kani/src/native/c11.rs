//! Native replay for C11's alphabet law, through the public(crate) encode/decode.
use super::*;
use crate::internal::streamname;

const ALPHABET: &str = "0123456789ABCDEFGHIJKLMNOPQRSTUVWXYZabcdefghijklmnopqrstuvwxyz._";

#[test]
fn replay_c11() {
    let m = inputs();
    let mut differs = 0;
    let mut witness = String::new();
    if let Some(c) = get_i128(&m, "c") {
        if let Some(ch) = char::from_u32(c as u32) {
            let name: String = std::iter::once(ch).collect();
            let enc = streamname::encode(&name, false);
            let (dec, is_table) = streamname::decode(&enc);
            let packable = ALPHABET.contains(ch);
            let packed = enc.chars().next().map(|e| (0x3800..0x4840).contains(&(e as u32))).unwrap_or(false);
            if dec != name || is_table || (packable != packed && !(0x3800..0x4840).contains(&(ch as u32))) {
                differs = 1;
                witness = format!("{:?} encodes to {:?} and decodes to {:?} (packable: {}, packed: {})", name, enc, dec, packable, packed);
            }
        }
    }
    if let Some(v) = get_i128(&m, "v") {
        let want = ALPHABET.chars().nth(v as usize).unwrap();
        let enc: String = std::iter::once(char::from_u32(0x4800 + v as u32).unwrap()).collect();
        let (dec, _) = streamname::decode(&enc);
        let back = streamname::encode(&dec, false);
        if dec.chars().next() != Some(want) || back != enc {
            differs = 1;
            witness = format!("value {} decodes to {:?} (format: {:?}) and re-encodes to {:?}", v, dec, want, back);
        }
    }
    println!("OUT differs={}", differs);
    println!("OUT witness={}", witness);
}

/// Native replay for the packing laws: every name of <= 3 characters over an adversarial alphabet is
/// encoded by the real `encode`, compared with a reference packing written here, decoded by the real
/// `decode`, and all clean names (no character in 0x3800..=0x4840) are checked to round-trip and to
/// encode pairwise differently.
#[test]
fn replay_packing() {
    fn b64(c: char) -> Option<u32> {
        ALPHABET.find(c).map(|i| i as u32)
    }
    fn reference(name: &[char], is_table: bool) -> String {
        let mut out = String::new();
        if is_table {
            out.push('\u{4840}');
        }
        let mut i = 0;
        while i < name.len() {
            match b64(name[i]) {
                Some(v1) => {
                    if i + 1 < name.len() {
                        if let Some(v2) = b64(name[i + 1]) {
                            out.push(char::from_u32(0x3800 + (v2 << 6) + v1).unwrap());
                            i += 2;
                            continue;
                        }
                    }
                    out.push(char::from_u32(0x4800 + v1).unwrap());
                }
                None => out.push(name[i]),
            }
            i += 1;
        }
        out
    }
    let alphabet: Vec<char> = vec!['0', '9', 'A', 'z', '.', '_', '-', ' ', '/', '\u{5}', 'é', '\u{37ff}', '\u{4841}', '\u{10000}'];
    let mut names: Vec<Vec<char>> = vec![vec![]];
    for len in 1..=3usize {
        let mut idx = vec![0usize; len];
        loop {
            names.push(idx.iter().map(|&i| alphabet[i]).collect());
            let mut k = 0;
            while k < len {
                idx[k] += 1;
                if idx[k] < alphabet.len() {
                    break;
                }
                idx[k] = 0;
                k += 1;
            }
            if k == len {
                break;
            }
        }
    }
    let mut witness: Option<String> = None;
    let mut seen: std::collections::HashMap<String, String> = std::collections::HashMap::new();
    let mut checked = 0u64;
    for n in names.iter() {
        let name: String = n.iter().collect();
        for is_table in [false, true] {
            let enc = streamname::encode(&name, is_table);
            checked += 1;
            if enc != reference(n, is_table) {
                witness = Some(format!("encode({:?}, {}) = {:?}, the reference packing is {:?}", name, is_table, enc, reference(n, is_table)));
                break;
            }
            let (dec, t) = streamname::decode(&enc);
            if dec != name || t != is_table {
                witness = Some(format!("decode(encode({:?}, {})) = ({:?}, {})", name, is_table, dec, t));
                break;
            }
        }
        if witness.is_some() {
            break;
        }
        let enc = streamname::encode(&name, false);
        if let Some(other) = seen.insert(enc.clone(), name.clone()) {
            if other != name {
                witness = Some(format!("{:?} and {:?} both encode to {:?}", other, name, enc));
                break;
            }
        }
    }
    // names the library accepts as stream names must not collide once encoded, whatever characters they contain
    if witness.is_none() {
        let odd: Vec<char> = vec!['0', 'a', '_', '-', '\u{3800}', '\u{3841}', '\u{4800}', '\u{483f}', '\u{4840}', '\u{4841}'];
        let mut accepted: std::collections::HashMap<String, String> = std::collections::HashMap::new();
        'acc: for a in odd.iter() {
            for b in odd.iter().map(Some).chain(std::iter::once(None)) {
                let name: String = std::iter::once(*a).chain(b.copied()).collect();
                if !streamname::is_valid(&name, false) {
                    continue;
                }
                checked += 1;
                let enc = streamname::encode(&name, false);
                if let Some(other) = accepted.insert(enc.clone(), name.clone()) {
                    if other != name {
                        witness = Some(format!("the accepted stream names {:?} and {:?} both encode to {:?}", other, name, enc));
                        break 'acc;
                    }
                }
                let (dec, t) = streamname::decode(&enc);
                if dec != name || t {
                    witness = Some(format!("the accepted stream name {:?} is stored as {:?} and listed as ({:?}, table: {})", name, enc, dec, t));
                    break 'acc;
                }
            }
        }
    }
    // decode against a reference unpacking, on arbitrary stored names (including the packing's own code points)
    fn unb64(v: u32) -> char {
        ALPHABET.chars().nth(v as usize).unwrap()
    }
    if witness.is_none() {
        let stored: Vec<char> = vec!['a', '-', '\u{3800}', '\u{3841}', '\u{47ff}', '\u{4800}', '\u{483f}', '\u{4840}', '\u{4841}', '\u{37ff}'];
        let mut idx = [0usize; 3];
        'outer: for len in 0..=3usize {
            for i in idx.iter_mut() {
                *i = 0;
            }
            loop {
                let name: Vec<char> = idx[..len].iter().map(|&i| stored[i]).collect();
                let text: String = name.iter().collect();
                let mut want = String::new();
                let mut want_table = false;
                for (pos, &c) in name.iter().enumerate() {
                    let v = c as u32;
                    if pos == 0 && v == 0x4840 {
                        want_table = true;
                    } else if (0x3800..0x4800).contains(&v) {
                        want.push(unb64((v - 0x3800) & 0x3f));
                        want.push(unb64((v - 0x3800) >> 6));
                    } else if (0x4800..0x4840).contains(&v) {
                        want.push(unb64(v - 0x4800));
                    } else {
                        want.push(c);
                    }
                }
                let got = std::panic::catch_unwind(|| streamname::decode(&text));
                checked += 1;
                match got {
                    Ok((d, t)) if d == want && t == want_table => {}
                    Ok((d, t)) => {
                        witness = Some(format!("decode({:?}) = ({:?}, {}), the reference unpacking is ({:?}, {})", text, d, t, want, want_table));
                        break 'outer;
                    }
                    Err(_) => {
                        witness = Some(format!("decode({:?}) panics", text));
                        break 'outer;
                    }
                }
                let mut k = 0;
                while k < len {
                    idx[k] += 1;
                    if idx[k] < stored.len() {
                        break;
                    }
                    idx[k] = 0;
                    k += 1;
                }
                if k == len {
                    break;
                }
            }
        }
    }
    println!("OUT checked={}", checked);
    println!("OUT differs={}", if witness.is_some() { 1 } else { 0 });
    if let Some(w) = witness {
        println!("OUT witness={}", w);
    }
}
