//! Acceptance boundaries of the PUBLIC API, measured natively on every run and
//! handed to the Kani harnesses as premises (never as verdicts).
use super::*;
use crate::internal::column::Column;
use crate::internal::package::{Package, PackageType};
use std::io::Cursor;

fn accepts_width(w: usize) -> bool {
    let cursor = Cursor::new(Vec::new());
    let mut p = Package::create(PackageType::Installer, cursor).unwrap();
    p.create_table("T", vec![Column::build("K").primary_key().string(w)]).is_ok()
}

/// Largest string width `create_table` accepts (refusal assumed upward-closed;
/// the assumption is checked at a few probe points and reported).
#[test]
fn probe_premises() {
    let hi_limit: usize = 1 << 20;
    if !accepts_width(0) {
        println!("OUT c06_w_acc=none");
        return;
    }
    if accepts_width(hi_limit) {
        println!("OUT c06_w_acc=unbounded");
        return;
    }
    let (mut lo, mut hi) = (0usize, hi_limit); // accepts(lo), !accepts(hi)
    while hi - lo > 1 {
        let mid = lo + (hi - lo) / 2;
        if accepts_width(mid) {
            lo = mid;
        } else {
            hi = mid;
        }
    }
    println!("OUT c06_w_acc={}", lo);
    // spot-check the upward-closed shape assumption
    let mut shape_ok = true;
    for w in [lo + 1, lo + 2, 2 * lo + 1, 65535, 65536] {
        if w > lo && accepts_width(w) {
            shape_ok = false;
        }
    }
    for w in [0usize, 1, lo / 2, lo] {
        if !accepts_width(w) {
            shape_ok = false;
        }
    }
    println!("OUT c06_shape_ok={}", if shape_ok { 1 } else { 0 });
}
