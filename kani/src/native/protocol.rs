//! Native replay scenarios for the Package persistence protocol (engine M's
//! protocol laws).  Public API only, real cfb.  Each scenario prints
//! `OUT <name>=ok|FAILED: ...`; the driver treats any FAILED as "the solver's
//! counterexample reproduces through the public API".
use super::*;
use crate::internal::codepage::CodePage;
use crate::internal::column::Column;
use crate::internal::expr::Expr;
use crate::internal::package::{Package, PackageType};
use crate::internal::query::{Delete, Insert, Select, Update};
use crate::internal::value::Value;
use std::cell::RefCell;
use std::io::{self, Cursor, Read, Seek, SeekFrom, Write};
use std::rc::Rc;

struct Ctl {
    armed: bool,
    writes: usize,
    fail_at: usize,
    persistent: bool,
}

#[derive(Clone)]
struct Medium {
    cur: Rc<RefCell<Cursor<Vec<u8>>>>,
    ctl: Rc<RefCell<Ctl>>,
}

impl Medium {
    fn new() -> Medium {
        Medium {
            cur: Rc::new(RefCell::new(Cursor::new(Vec::new()))),
            ctl: Rc::new(RefCell::new(Ctl { armed: false, writes: 0, fail_at: usize::MAX, persistent: false })),
        }
    }
    fn snapshot(&self) -> Vec<u8> {
        self.cur.borrow().get_ref().clone()
    }
}

impl Read for Medium {
    fn read(&mut self, b: &mut [u8]) -> io::Result<usize> {
        self.cur.borrow_mut().read(b)
    }
}
impl Seek for Medium {
    fn seek(&mut self, p: SeekFrom) -> io::Result<u64> {
        self.cur.borrow_mut().seek(p)
    }
}
impl Write for Medium {
    fn write(&mut self, b: &[u8]) -> io::Result<usize> {
        {
            let mut c = self.ctl.borrow_mut();
            if c.armed {
                let k = c.writes;
                c.writes += 1;
                if k == c.fail_at || (c.persistent && k > c.fail_at) {
                    return Err(io::Error::new(io::ErrorKind::Other, "injected write fault"));
                }
            }
        }
        self.cur.borrow_mut().write(b)
    }
    fn flush(&mut self) -> io::Result<()> {
        Ok(())
    }
}

fn cols() -> Vec<Column> {
    vec![Column::build("K").primary_key().int32(), Column::build("S").nullable().string(0)]
}

/// a scenario that panics is a failed scenario (and must not keep the later ones from running)
fn guarded(f: impl FnOnce() -> Result<(), String>) -> Result<(), String> {
    let hook = std::panic::take_hook();
    let msg = std::sync::Arc::new(std::sync::Mutex::new(String::new()));
    let m2 = msg.clone();
    std::panic::set_hook(Box::new(move |info| {
        *m2.lock().unwrap() = info.to_string();
    }));
    let r = std::panic::catch_unwind(std::panic::AssertUnwindSafe(f));
    std::panic::set_hook(hook);
    match r {
        Ok(r) => r,
        Err(_) => Err(format!("the scenario panics: {}", msg.lock().unwrap().replace('\n', " "))),
    }
}

fn report(name: &str, r: Result<(), String>) {
    match r {
        Ok(()) => println!("OUT {}=ok", name),
        Err(e) => println!("OUT {}=FAILED: {}", name, e),
    }
}

fn reopen(bytes: Vec<u8>) -> Result<Package<Cursor<Vec<u8>>>, String> {
    Package::open(Cursor::new(bytes)).map_err(|e| format!("reopen failed: {}", e))
}

fn rows_of(p: &mut Package<Cursor<Vec<u8>>>, t: &str) -> Result<Vec<(Value, Value)>, String> {
    let rows = p.select_rows(Select::table(t)).map_err(|e| format!("select failed: {}", e))?;
    Ok(rows.map(|r| (r[0].clone(), r[1].clone())).collect())
}

/// a table operation arms the finisher BEFORE the first summary edit
fn s_summary_after_table(close: u8) -> Result<(), String> {
    let m = Medium::new();
    let mut p = Package::create(PackageType::Installer, m.clone()).map_err(|e| e.to_string())?;
    p.create_table("T", cols()).map_err(|e| e.to_string())?;
    p.insert_rows(Insert::into("T").row(vec![Value::Int(1), Value::from("x")])).map_err(|e| e.to_string())?;
    p.summary_info_mut().set_author("Jane Doe");
    match close {
        0 => p.flush().map_err(|e| e.to_string())?,
        1 => {
            p.into_inner().map_err(|e| e.to_string())?;
        }
        _ => drop(p),
    }
    let q = reopen(m.snapshot())?;
    if q.summary_info().author() != Some("Jane Doe") {
        return Err(format!("author after reopen is {:?}", q.summary_info().author()));
    }
    Ok(())
}

/// summary edit, flush, then another summary edit (flags must be re-armed after a flush)
fn s_summary_twice() -> Result<(), String> {
    let m = Medium::new();
    let mut p = Package::create(PackageType::Installer, m.clone()).map_err(|e| e.to_string())?;
    p.summary_info_mut().set_author("A");
    p.flush().map_err(|e| e.to_string())?;
    p.summary_info_mut().set_subject("B");
    p.flush().map_err(|e| e.to_string())?;
    std::mem::forget(p);
    let q = reopen(m.snapshot())?;
    if q.summary_info().author() != Some("A") || q.summary_info().subject() != Some("B") {
        return Err(format!("after reopen: author {:?} subject {:?}", q.summary_info().author(), q.summary_info().subject()));
    }
    Ok(())
}

/// the database code page is saved, also when set after other edits and after a flush
fn s_codepage() -> Result<(), String> {
    let m = Medium::new();
    let mut p = Package::create(PackageType::Installer, m.clone()).map_err(|e| e.to_string())?;
    p.create_table("T", cols()).map_err(|e| e.to_string())?;
    p.flush().map_err(|e| e.to_string())?;
    p.set_database_codepage(CodePage::Windows1252);
    drop(p);
    let q = reopen(m.snapshot())?;
    if q.database_codepage() != CodePage::Windows1252 {
        return Err(format!("database code page after reopen is {:?}", q.database_codepage()));
    }
    // a code-page change after a save re-encodes every string, also when nothing else touches the pool
    for close in 0..3u8 {
        let m = Medium::new();
        let mut p = Package::create(PackageType::Installer, m.clone()).map_err(|e| e.to_string())?;
        p.set_database_codepage(CodePage::Windows1252);
        p.create_table("T", cols()).map_err(|e| e.to_string())?;
        p.insert_rows(Insert::into("T").rows(vec![vec![Value::Int(1), Value::from("caf\u{e9}")], vec![Value::Int(2), Value::from("plain ascii")], vec![Value::Int(3), Value::from("\u{fc}ber")]]))
            .map_err(|e| e.to_string())?;
        p.flush().map_err(|e| e.to_string())?;
        p.set_database_codepage(CodePage::Utf8);
        match close {
            0 => drop(p),
            1 => {
                p.flush().map_err(|e| e.to_string())?;
                drop(p);
            }
            _ => {
                p.into_inner().map_err(|e| e.to_string())?;
            }
        }
        let mut q = Package::open(m.clone()).map_err(|e| format!("reopen after a code-page change failed: {}", e))?;
        let got = rows_of2(&mut q, "T")?;
        let want = vec![(Value::Int(1), Value::from("caf\u{e9}")), (Value::Int(2), Value::from("plain ascii")), (Value::Int(3), Value::from("\u{fc}ber"))];
        if got != want || q.database_codepage() != CodePage::Utf8 {
            return Err(format!("after changing the code page of a saved database (close mode {}) the rows read {:?} under {:?}", close, got, q.database_codepage()));
        }
    }
    Ok(())
}

fn rows_of2(p: &mut Package<Medium>, t: &str) -> Result<Vec<(Value, Value)>, String> {
    let rows = p.select_rows(Select::table(t)).map_err(|e| format!("select failed: {}", e))?;
    Ok(rows.map(|r| (r[0].clone(), r[1].clone())).collect())
}

/// rows inserted / updated / deleted are saved by each way of closing, incl. strings newly interned
fn s_rows(close: u8) -> Result<(), String> {
    let m = Medium::new();
    let mut p = Package::create(PackageType::Installer, m.clone()).map_err(|e| e.to_string())?;
    p.create_table("T", cols()).map_err(|e| e.to_string())?;
    p.flush().map_err(|e| e.to_string())?;
    p.insert_rows(Insert::into("T").rows(vec![vec![Value::Int(1), Value::from("one")], vec![Value::Int(2), Value::from("two")]]))
        .map_err(|e| e.to_string())?;
    p.update_rows(Update::table("T").set("S", Value::from("deux")).with(Expr::col("K").eq(Expr::integer(2)))).map_err(|e| e.to_string())?;
    p.delete_rows(Delete::from("T").with(Expr::col("K").eq(Expr::integer(1)))).map_err(|e| e.to_string())?;
    match close {
        0 => {
            p.flush().map_err(|e| e.to_string())?;
            std::mem::forget(p);
        }
        1 => {
            p.into_inner().map_err(|e| e.to_string())?;
        }
        _ => drop(p),
    }
    let mut q = reopen(m.snapshot())?;
    let rows = rows_of(&mut q, "T")?;
    if rows != vec![(Value::Int(2), Value::from("deux"))] {
        return Err(format!("rows after reopen: {:?}", rows));
    }
    Ok(())
}

/// the saved pool image shrinks (a string > 64 KiB goes away): stale bytes must not survive
fn s_pool_shrinks() -> Result<(), String> {
    let m = Medium::new();
    let mut p = Package::create(PackageType::Installer, m.clone()).map_err(|e| e.to_string())?;
    p.create_table("T", cols()).map_err(|e| e.to_string())?;
    let big = "x".repeat(70000);
    p.insert_rows(Insert::into("T").rows(vec![vec![Value::Int(1), Value::from(big.as_str())], vec![Value::Int(2), Value::from("small")]]))
        .map_err(|e| e.to_string())?;
    p.flush().map_err(|e| e.to_string())?;
    p.delete_rows(Delete::from("T").with(Expr::col("K").eq(Expr::integer(1)))).map_err(|e| e.to_string())?;
    p.summary_info_mut().set_comments("c");
    p.flush().map_err(|e| e.to_string())?;
    std::mem::forget(p);
    let mut q = reopen(m.snapshot())?;
    let rows = rows_of(&mut q, "T")?;
    if rows != vec![(Value::Int(2), Value::from("small"))] {
        return Err(format!("rows after reopen: {:?}", rows));
    }
    Ok(())
}

/// a session with no changes writes nothing (flags clean => finish is a no-op)
fn s_readonly() -> Result<(), String> {
    // two stored packages: a plain one, and one whose string pool ends in entries that are no longer referenced
    let mut images = Vec::new();
    for trailing_unused in [false, true] {
        let m = Medium::new();
        let mut p = Package::create(PackageType::Installer, m.clone()).map_err(|e| e.to_string())?;
        p.create_table("T", cols()).map_err(|e| e.to_string())?;
        p.insert_rows(Insert::into("T").rows(vec![vec![Value::Int(1), Value::from("first")], vec![Value::Int(2), Value::from("second")]])).map_err(|e| e.to_string())?;
        p.write_stream("Blob").map_err(|e| e.to_string())?.write_all(b"bytes").map_err(|e| e.to_string())?;
        if trailing_unused {
            p.insert_rows(Insert::into("T").row(vec![Value::Int(3), Value::from("the-last-string-added")])).map_err(|e| e.to_string())?;
            p.flush().map_err(|e| e.to_string())?;
            p.delete_rows(Delete::from("T").with(Expr::col("K").eq(Expr::integer(3)))).map_err(|e| e.to_string())?;
        }
        p.into_inner().map_err(|e| e.to_string())?;
        images.push(m.snapshot());
    }
    for (n, before) in images.iter().enumerate() {
        for close in 0..3u8 {
            let m2 = Medium::new();
            *m2.cur.borrow_mut() = Cursor::new(before.clone());
            m2.ctl.borrow_mut().armed = true;
            let mut q = Package::open(m2.clone()).map_err(|e| e.to_string())?;
            let _ = q.select_rows(Select::table("T")).map_err(|e| e.to_string())?.count();
            let _ = q.select_rows(Select::table("T").inner_join(Select::table("_Columns"), Expr::col("T.K").eq(Expr::col("_Columns.Number")))).map_err(|e| e.to_string())?.count();
            let _ = q.summary_info().author();
            let _ = q.streams().count();
            let _ = q.has_table("T");
            let mut buf = Vec::new();
            q.read_stream("Blob").map_err(|e| e.to_string())?.read_to_end(&mut buf).map_err(|e| e.to_string())?;
            match close {
                0 => drop(q),
                1 => {
                    q.flush().map_err(|e| e.to_string())?;
                    drop(q);
                }
                _ => {
                    q.into_inner().map_err(|e| e.to_string())?;
                }
            }
            if m2.ctl.borrow().writes != 0 || &m2.snapshot() != before {
                return Err(format!("a read-only session on stored package {} closed by {} issued {} writes", n, ["drop", "flush + drop", "into_inner"][close as usize], m2.ctl.borrow().writes));
            }
        }
    }
    Ok(())
}

/// single-fault sweep: whenever every call incl. flush returned Ok, the medium holds the state;
/// after a failed flush a second, fault-free flush must complete the save
fn s_faults() -> Result<(), String> {
    // count writes of the armed part
    let count = {
        let m = Medium::new();
        run_fault_script(&m, usize::MAX, false).map_err(|e| format!("fault-free run failed: {}", e))?;
        let n = m.ctl.borrow().writes;
        n
    };
    for persistent in [false, true] {
        for k in 0..count {
            let m = Medium::new();
            match run_fault_script(&m, k, persistent) {
                Ok(()) => check_fault_state(&m, k, persistent, "all calls returned Ok")?,
                Err(_) => {
                    // the failed call reported the fault; nothing to check for this schedule
                }
            }
        }
    }
    Ok(())
}

fn run_fault_script(m: &Medium, k: usize, persistent: bool) -> Result<(), String> {
    let mut p = Package::create(PackageType::Installer, m.clone()).map_err(|e| e.to_string())?;
    p.create_table("T", cols()).map_err(|e| e.to_string())?;
    p.flush().map_err(|e| e.to_string())?;
    {
        let mut c = m.ctl.borrow_mut();
        c.armed = true;
        c.fail_at = k;
        c.persistent = persistent;
    }
    let r = (|| -> io::Result<()> {
        p.insert_rows(Insert::into("T").rows(vec![vec![Value::Int(1), Value::from("one")], vec![Value::Int(2), Value::from("two")]]))?;
        p.summary_info_mut().set_author("Jane Doe");
        p.flush()?;
        Ok(())
    })();
    m.ctl.borrow_mut().armed = false;
    std::mem::forget(p);
    r.map_err(|e| e.to_string())
}

fn check_fault_state(m: &Medium, k: usize, persistent: bool, what: &str) -> Result<(), String> {
    let mut q = reopen(m.snapshot()).map_err(|e| format!("write {} {}: {} but {}", k, if persistent { "persistent" } else { "transient" }, what, e))?;
    let rows = rows_of(&mut q, "T")?;
    if rows != vec![(Value::Int(1), Value::from("one")), (Value::Int(2), Value::from("two"))] || q.summary_info().author() != Some("Jane Doe") {
        return Err(format!("write {} {}: {} but the medium holds rows {:?}, author {:?}", k, if persistent { "persistent" } else { "transient" }, what, rows, q.summary_info().author()));
    }
    Ok(())
}

/// stream calls: write / list / read / remove, invalid and unknown names are refused without effect
fn s_streams() -> Result<(), String> {
    let m = Medium::new();
    let mut p = Package::create(PackageType::Installer, m.clone()).map_err(|e| e.to_string())?;
    p.create_table("T", cols()).map_err(|e| e.to_string())?;
    {
        let mut w = p.write_stream("Icon.exe").map_err(|e| e.to_string())?;
        w.write_all(b"hello").map_err(|e| e.to_string())?;
    }
    let listing = |p: &Package<Medium>| -> Vec<String> {
        let mut v: Vec<String> = p.streams().collect();
        v.sort();
        v
    };
    if listing(&p) != vec!["Icon.exe".to_string()] {
        return Err(format!("stream listing is {:?}", listing(&p)));
    }
    let long = "x".repeat(100);
    if p.write_stream("").is_ok() || p.write_stream(long.as_str()).is_ok() || p.remove_stream("").is_ok() || p.read_stream("").is_ok() {
        return Err("an invalid stream name was accepted".to_string());
    }
    if p.remove_stream("Missing").is_ok() || p.read_stream("Missing").is_ok() {
        return Err("an unknown stream name was accepted".to_string());
    }
    if p.remove_stream("T").is_ok() || p.read_stream("T").is_ok() {
        return Err("a table was reachable through the stream interface".to_string());
    }
    if listing(&p) != vec!["Icon.exe".to_string()] || !p.has_table("T") {
        return Err(format!("a refused stream call changed the package: streams {:?}", listing(&p)));
    }
    let mut data = Vec::new();
    p.read_stream("Icon.exe").map_err(|e| e.to_string())?.read_to_end(&mut data).map_err(|e| e.to_string())?;
    if data != b"hello" {
        return Err(format!("stream contents read back as {:?}", data));
    }
    p.remove_stream("Icon.exe").map_err(|e| e.to_string())?;
    if !listing(&p).is_empty() || p.has_stream("Icon.exe") {
        return Err("removed stream is still listed".to_string());
    }
    // user streams whose names spell the special streams' names are ordinary streams: listed, readable, and they leave
    // the real summary information and table data alone
    p.summary_info_mut().set_subject("kept");
    let specials = ["\u{5}SummaryInformation", "\u{5}DocumentSummaryInformation", "\u{5}DigitalSignature", "\u{5}MsiDigitalSignatureEx", "Plain.bin"];
    let mut expect: Vec<String> = Vec::new();
    for (i, name) in specials.iter().enumerate() {
        match p.write_stream(*name) {
            Ok(mut w) => {
                w.write_all(&[i as u8; 3]).map_err(|e| e.to_string())?;
                expect.push(name.to_string());
            }
            Err(_) => {}
        }
    }
    expect.sort();
    p.flush().map_err(|e| e.to_string())?;
    for round in 0..2 {
        let mut q = if round == 0 { None } else { Some(Package::open(Cursor::new(m.snapshot())).map_err(|e| format!("reopen failed: {}", e))?) };
        let got: Vec<String> = match q {
            None => listing(&p),
            Some(ref q) => {
                let mut v: Vec<String> = q.streams().collect();
                v.sort();
                v
            }
        };
        if got != expect {
            return Err(format!("stream listing {} is {:?}, the live user streams are {:?}", if round == 0 { "before reopen" } else { "after reopen" }, got, expect));
        }
        let subject = match q {
            None => p.summary_info().subject().map(|s| s.to_string()),
            Some(ref mut q) => q.summary_info().subject().map(|s| s.to_string()),
        };
        if subject.as_deref() != Some("kept") {
            return Err("a user stream named like a special stream disturbed the summary information".to_string());
        }
    }
    for name in expect.iter() {
        p.remove_stream(name.as_str()).map_err(|e| format!("removing {:?} failed: {}", name, e))?;
    }
    if !listing(&p).is_empty() {
        return Err(format!("after removing every user stream the listing is {:?}", listing(&p)));
    }
    if p.drop_table("_Tables").is_ok() || p.drop_table("Missing").is_ok() || p.drop_table("9bad").is_ok() {
        return Err("drop_table accepted a reserved / unknown / invalid name".to_string());
    }
    if !p.has_table("T") {
        return Err("a refused drop_table changed the table list".to_string());
    }
    Ok(())
}

/// the insert/update gate: every value is checked against ITS column, whatever else is in the batch
fn s_gate() -> Result<(), String> {
    let m = Medium::new();
    let mut p = Package::create(PackageType::Installer, m.clone()).map_err(|e| e.to_string())?;
    p.create_table(
        "G",
        vec![
            Column::build("K").primary_key().int16(),
            Column::build("T").nullable().text_string(0),
            Column::build("I").nullable().id_string(0),
            Column::build("N").nullable().range(0, 10).int32(),
        ],
    )
    .map_err(|e| e.to_string())?;
    let bad_batches: Vec<Vec<Vec<Value>>> = vec![
        // the same string valid in an earlier column, invalid in a later one
        vec![vec![Value::Int(1), Value::from("hello world"), Value::from("hello world"), Value::Int(1)]],
        // valid first row, the same string invalid in a later row / column
        vec![
            vec![Value::Int(1), Value::from("not-an-id"), Value::from("Ok_1"), Value::Int(1)],
            vec![Value::Int(2), Value::from("x"), Value::from("not-an-id"), Value::Int(2)],
        ],
        // wrong arity, only in the last row
        vec![vec![Value::Int(1), Value::Null, Value::Null, Value::Int(1)], vec![Value::Int(2), Value::Null, Value::Null]],
        // out-of-range / wrong type values in the last position
        vec![vec![Value::Int(1), Value::Null, Value::Null, Value::Int(11)]],
        vec![vec![Value::Int(1), Value::Null, Value::Null, Value::from("1")]],
        vec![vec![Value::Int(40000), Value::Null, Value::Null, Value::Int(1)]],
        vec![vec![Value::Null, Value::Null, Value::Null, Value::Int(1)]],
    ];
    for (i, batch) in bad_batches.into_iter().enumerate() {
        if p.insert_rows(Insert::into("G").rows(batch)).is_ok() {
            return Err(format!("invalid batch #{} was accepted by insert_rows", i));
        }
        let n = p.select_rows(Select::table("G")).map_err(|e| e.to_string())?.count();
        if n != 0 {
            return Err(format!("a refused batch (#{}) left {} rows behind", i, n));
        }
    }
    p.insert_rows(Insert::into("G").row(vec![Value::Int(1), Value::from("a b"), Value::from("Id_1"), Value::Int(10)])).map_err(|e| format!("valid row refused: {}", e))?;
    for (col, v) in [("I", Value::from("a b")), ("N", Value::Int(-1)), ("K", Value::from("x"))] {
        if p.update_rows(Update::table("G").set(col, v.clone())).is_ok() {
            return Err(format!("update of {} to invalid value {:?} was accepted", col, v));
        }
    }
    Ok(())
}

/// string accounting through updates: setting a cell to the value it already holds, to a new value and
/// back, then deleting every row, must leave no text of those rows in the saved string data
fn s_update_accounting() -> Result<(), String> {
    use crate::internal::streamname;
    let m = Medium::new();
    let mut p = Package::create(PackageType::Installer, m.clone()).map_err(|e| e.to_string())?;
    p.create_table("T", cols()).map_err(|e| e.to_string())?;
    p.insert_rows(Insert::into("T").rows(vec![
        vec![Value::Int(1), Value::from("SecretAlpha")],
        vec![Value::Int(2), Value::from("SecretBeta")],
        vec![Value::Int(3), Value::from("SecretBeta")],
    ]))
    .map_err(|e| e.to_string())?;
    p.update_rows(Update::table("T").set("S", Value::from("SecretBeta")).with(Expr::col("K").eq(Expr::integer(2)))).map_err(|e| e.to_string())?;
    p.update_rows(Update::table("T").set("S", Value::from("SecretGamma")).with(Expr::col("K").eq(Expr::integer(1)))).map_err(|e| e.to_string())?;
    p.update_rows(Update::table("T").set("S", Value::from("SecretBeta"))).map_err(|e| e.to_string())?;
    // a table whose FIRST column is a string, and a string in the last column
    p.create_table("U", vec![Column::build("A").primary_key().string(0), Column::build("N").nullable().int16(), Column::build("Z").nullable().string(0)])
        .map_err(|e| e.to_string())?;
    p.insert_rows(Insert::into("U").rows(vec![
        vec![Value::from("SecretKeyOne"), Value::Int(1), Value::from("SecretTail")],
        vec![Value::from("SecretKeyTwo"), Value::Null, Value::from("SecretTail")],
    ]))
    .map_err(|e| e.to_string())?;
    p.flush().map_err(|e| e.to_string())?;
    p.delete_rows(Delete::from("U").with(Expr::col("N").eq(Expr::integer(1)))).map_err(|e| e.to_string())?;
    p.delete_rows(Delete::from("T")).map_err(|e| e.to_string())?;
    p.delete_rows(Delete::from("U")).map_err(|e| e.to_string())?;
    p.into_inner().map_err(|e| e.to_string())?;
    let mut comp = cfb::CompoundFile::open(Cursor::new(m.snapshot())).map_err(|e| e.to_string())?;
    let mut data = Vec::new();
    comp.open_stream(streamname::encode("_StringData", true)).map_err(|e| e.to_string())?.read_to_end(&mut data).map_err(|e| e.to_string())?;
    let hay = String::from_utf8_lossy(&data).to_string();
    for needle in ["SecretAlpha", "SecretBeta", "SecretGamma", "SecretKeyOne", "SecretKeyTwo", "SecretTail"] {
        if hay.contains(needle) {
            return Err(format!("text {:?} of deleted rows is still in the saved string data (a reference was leaked)", needle));
        }
    }
    Ok(())
}

/// inner / left joins against a nested-loop reference computed from the two tables' own rows
fn s_join() -> Result<(), String> {
    let m = Medium::new();
    let mut p = Package::create(PackageType::Installer, m.clone()).map_err(|e| e.to_string())?;
    p.create_table("L", cols()).map_err(|e| e.to_string())?;
    p.create_table("R", vec![Column::build("Id").primary_key().int16(), Column::build("F").nullable().int32(), Column::build("T").nullable().string(0)])
        .map_err(|e| e.to_string())?;
    p.insert_rows(Insert::into("L").rows(vec![
        vec![Value::Int(1), Value::from("one")],
        vec![Value::Int(2), Value::Null],
        vec![Value::Int(3), Value::from("three")],
        vec![Value::Int(4), Value::from("four")],
    ]))
    .map_err(|e| e.to_string())?;
    p.insert_rows(Insert::into("R").rows(vec![
        vec![Value::Int(10), Value::Int(1), Value::from("a")],
        vec![Value::Int(11), Value::Int(3), Value::from("b")],
        vec![Value::Int(12), Value::Int(1), Value::Null],
        vec![Value::Int(13), Value::Null, Value::from("d")],
        vec![Value::Int(14), Value::Int(9), Value::from("e")],
    ]))
    .map_err(|e| e.to_string())?;
    let all = |p: &mut Package<Medium>, sel: Select| -> Result<Vec<Vec<Value>>, String> {
        let rows = p.select_rows(sel).map_err(|e| format!("select failed: {}", e))?;
        Ok(rows.map(|r| (0..r.len()).map(|i| r[i].clone()).collect()).collect())
    };
    let l = all(&mut p, Select::table("L"))?;
    let r = all(&mut p, Select::table("R"))?;
    if l.len() != 4 || r.len() != 5 {
        return Err("setup: base tables do not read back".into());
    }
    // a WHERE clause over a left join filters the joined rows; it does not change which left rows count as unmatched
    {
        let on = || Expr::col("L.K").eq(Expr::col("R.F"));
        let joined = all(&mut p, Select::table("L").left_join(Select::table("R"), on()))?;
        for (what, cond, keep) in [
            ("R.Id != 10", Expr::col("R.Id").ne(Expr::integer(10)), Box::new(|r: &Vec<Value>| r[2] != Value::Int(10)) as Box<dyn Fn(&Vec<Value>) -> bool>),
            ("R.Id != 11", Expr::col("R.Id").ne(Expr::integer(11)), Box::new(|r: &Vec<Value>| r[2] != Value::Int(11))),
            ("R.Id < 11", Expr::col("R.Id").lt(Expr::integer(11)), Box::new(|r: &Vec<Value>| r[2] < Value::Int(11))),
            ("L.K > 1", Expr::col("L.K").gt(Expr::integer(1)), Box::new(|r: &Vec<Value>| r[0] > Value::Int(1))),
        ] {
            let got = all(&mut p, Select::table("L").left_join(Select::table("R"), on()).with(cond))?;
            let want: Vec<Vec<Value>> = joined.iter().filter(|r| keep(r)).cloned().collect();
            if got != want {
                return Err(format!("L LEFT JOIN R ON L.K = R.F WHERE {} returned {:?}; filtering the unfiltered left join gives {:?}", what, got, want));
            }
        }
    }
    // self-joins: both sides contribute the same prefixed names; a name means its first (left) occurrence
    for left in [false, true] {
        let on = Expr::col("L.K").lt(Expr::integer(3));
        let sel = if left { Select::table("L").left_join(Select::table("L"), on) } else { Select::table("L").inner_join(Select::table("L"), on) };
        let got = all(&mut p, sel)?;
        let mut want: Vec<Vec<Value>> = Vec::new();
        for a in &l {
            let mut any = false;
            for b in &l {
                if a[0] < Value::Int(3) {
                    want.push(a.iter().chain(b.iter()).cloned().collect());
                    any = true;
                }
            }
            if left && !any {
                want.push(a.iter().cloned().chain(b_nulls(a.len())).collect());
            }
        }
        if got != want {
            return Err(format!("{} self-join ON L.K < 3 returned {:?}, with the name resolved to its first occurrence the reference gives {:?}", if left { "left" } else { "inner" }, got, want));
        }
        let proj = all(&mut p, Select::table("L").left_join(Select::table("L"), Expr::col("L.K").eq(Expr::integer(-1))).columns(&["L.K"]))?;
        if proj != l.iter().map(|a| vec![a[0].clone()]).collect::<Vec<_>>() {
            return Err(format!("projecting L.K over a self left join that matches nothing returned {:?}", proj));
        }
    }
    // an empty side: an inner join is empty; a left join keeps every left row, padded
    p.create_table("E", cols()).map_err(|e| e.to_string())?;
    for (what, sel, want_rows) in [
        ("L LEFT JOIN E", Select::table("L").left_join(Select::table("E"), Expr::col("L.K").eq(Expr::col("E.K"))), l.len()),
        ("L INNER JOIN E", Select::table("L").inner_join(Select::table("E"), Expr::col("L.K").eq(Expr::col("E.K"))), 0),
        ("E LEFT JOIN L", Select::table("E").left_join(Select::table("L"), Expr::col("L.K").eq(Expr::col("E.K"))), 0),
        ("L LEFT JOIN (R WHERE Id < 0)", Select::table("L").left_join(Select::table("R").with(Expr::col("Id").lt(Expr::integer(0))), Expr::col("L.K").eq(Expr::col("R.F"))), l.len()),
    ] {
        let got = all(&mut p, sel)?;
        if got.len() != want_rows {
            return Err(format!("{} returned {} rows, expected {}", what, got.len(), want_rows));
        }
        for (g, a) in got.iter().zip(l.iter()) {
            if g[..a.len()] != a[..] || g[a.len()..].iter().any(|v| !v.is_null()) {
                return Err(format!("{} returned the row {:?} for the left row {:?}", what, g, a));
            }
        }
    }
    for left in [false, true] {
        let on = Expr::col("L.K").eq(Expr::col("R.F"));
        let sel = if left { Select::table("L").left_join(Select::table("R"), on) } else { Select::table("L").inner_join(Select::table("R"), on) };
        let got = all(&mut p, sel)?;
        let mut want: Vec<Vec<Value>> = Vec::new();
        for a in &l {
            let mut any = false;
            for b in &r {
                if a[0] == b[1] {
                    want.push(a.iter().chain(b.iter()).cloned().collect());
                    any = true;
                }
            }
            if left && !any {
                want.push(a.iter().cloned().chain(b_nulls(3)).collect());
            }
        }
        if got != want {
            return Err(format!("{} join returned {:?}, the nested-loop reference gives {:?}", if left { "left" } else { "inner" }, got, want));
        }
    }
    Ok(())
}

fn b_nulls(n: usize) -> Vec<Value> {
    vec![Value::Null; n]
}

/// updates of primary-key columns keep keys unique and rows in key order (in memory and after reopen)
fn s_keys() -> Result<(), String> {
    fn invariant(p: &mut Package<Medium>, t: &str, nkeys: usize, what: &str) -> Result<Vec<Vec<Value>>, String> {
        let rows = p.select_rows(Select::table(t)).map_err(|e| format!("select failed: {}", e))?;
        let all: Vec<Vec<Value>> = rows.map(|r| (0..r.len()).map(|i| r[i].clone()).collect()).collect();
        for w in all.windows(2) {
            if w[0][..nkeys] >= w[1][..nkeys] {
                return Err(format!("{}: table {} holds rows with keys {:?} then {:?} (not strictly ascending)", what, t, &w[0][..nkeys], &w[1][..nkeys]));
            }
        }
        Ok(all)
    }
    fn invariant_at(p: &mut Package<Medium>, t: &str, key: usize, what: &str) -> Result<Vec<Vec<Value>>, String> {
        let rows = p.select_rows(Select::table(t)).map_err(|e| format!("select failed: {}", e))?;
        let all: Vec<Vec<Value>> = rows.map(|r| (0..r.len()).map(|i| r[i].clone()).collect()).collect();
        for w in all.windows(2) {
            if w[0][key] >= w[1][key] {
                return Err(format!("{}: table {} holds rows with keys {:?} then {:?} (not strictly ascending)", what, t, w[0][key], w[1][key]));
            }
        }
        Ok(all)
    }
    let m = Medium::new();
    let mut p = Package::create(PackageType::Installer, m.clone()).map_err(|e| e.to_string())?;
    p.create_table("T", cols()).map_err(|e| e.to_string())?;
    p.create_table("C", vec![Column::build("A").primary_key().string(0), Column::build("B").primary_key().int16(), Column::build("V").nullable().int32()])
        .map_err(|e| e.to_string())?;
    p.insert_rows(Insert::into("T").rows(vec![
        vec![Value::Int(1), Value::from("one")],
        vec![Value::Int(2), Value::from("two")],
        vec![Value::Int(3), Value::from("three")],
    ]))
    .map_err(|e| e.to_string())?;
    p.insert_rows(Insert::into("C").rows(vec![
        vec![Value::from("x"), Value::Int(1), Value::Int(100)],
        vec![Value::from("x"), Value::Int(2), Value::Int(200)],
        vec![Value::from("y"), Value::Int(1), Value::Int(300)],
    ]))
    .map_err(|e| e.to_string())?;
    // inserts: out of key order, colliding with an existing row, colliding within the batch (single and composite keys)
    invariant(&mut p, "T", 1, "after the first insert")?;
    p.insert_rows(Insert::into("T").rows(vec![vec![Value::Int(0), Value::from("zero")], vec![Value::Int(-5), Value::Null]])).map_err(|e| e.to_string())?;
    let t5 = invariant(&mut p, "T", 1, "after inserting keys 0 and -5")?;
    if t5.len() != 5 {
        return Err(format!("after inserting two more rows the table has {} rows", t5.len()));
    }
    for (t, nk, batch) in [
        ("T", 1, vec![vec![Value::Int(2), Value::from("again")]]),
        ("T", 1, vec![vec![Value::Int(50), Value::Null], vec![Value::Int(50), Value::from("twice")]]),
        ("C", 2, vec![vec![Value::from("x"), Value::Int(2), Value::Null]]),
        ("C", 2, vec![vec![Value::from("q"), Value::Int(1), Value::Null], vec![Value::from("q"), Value::Int(1), Value::Int(1)]]),
    ] {
        let before = invariant(&mut p, t, nk, "before a colliding insert")?;
        let r = p.insert_rows(Insert::into(t).rows(batch.clone()));
        let after = invariant(&mut p, t, nk, "after a colliding insert")?;
        if r.is_ok() {
            return Err(format!("inserting {:?} into {} succeeds although a key collides", batch, t));
        }
        if after != before {
            return Err(format!("a refused insert into {} changed the table", t));
        }
    }
    p.delete_rows(Delete::from("T").with(Expr::col("K").lt(Expr::integer(1)))).map_err(|e| e.to_string())?;
    // a constant assigned to the key of several rows: either refused (nothing changes) or keys stay unique
    let before = invariant(&mut p, "T", 1, "setup")?;
    let r = p.update_rows(Update::table("T").set("K", Value::Int(7)));
    let after = invariant(&mut p, "T", 1, "after UPDATE T SET K = 7")?;
    if r.is_err() && after != before {
        return Err("a refused key update changed the table".into());
    }
    // one row's key assigned the key of a row the statement does not touch
    let r = p.update_rows(Update::table("T").set("K", Value::Int(2)).with(Expr::col("K").eq(Expr::integer(3))));
    let after1 = invariant(&mut p, "T", 1, "after UPDATE T SET K = 2 WHERE K = 3")?;
    if r.is_err() && after1 != after {
        return Err("a refused single-row key update changed the table".into());
    }
    // the key assigned twice in one statement: the last assignment is the one stored, so it is the one that must be checked
    let r = p.update_rows(Update::table("T").set("K", Value::Int(50)).set("K", Value::Int(2)).with(Expr::col("K").eq(Expr::integer(3))));
    let after1b = invariant(&mut p, "T", 1, "after UPDATE T SET K = 50, K = 2 WHERE K = 3")?;
    if r.is_err() && after1b != after1 {
        return Err("a refused double key assignment changed the table".into());
    }
    let after1 = after1b;
    // the key assigned after another column in the same statement
    let r = p.update_rows(Update::table("T").set("S", Value::from("same")).set("K", Value::Int(8)));
    let after2 = invariant(&mut p, "T", 1, "after UPDATE T SET S = 'same', K = 8")?;
    if r.is_err() && after2 != after1 {
        return Err("a refused two-column key update changed the table".into());
    }
    // values the column does not admit are refused, also for nullable columns
    for (col, v) in [("S", Value::Int(3)), ("K", Value::from("text")), ("K", Value::Null)] {
        if p.update_rows(Update::table("T").set(col, v.clone())).is_ok() {
            return Err(format!("UPDATE T SET {} = {:?} succeeds although the column does not admit that value", col, v));
        }
    }
    if invariant(&mut p, "T", 1, "after refused invalid updates")? != after2 {
        return Err("a refused invalid update changed the table".into());
    }
    // a key moved past the others: rows are re-ordered
    p.update_rows(Update::table("T").set("K", Value::Int(10)).with(Expr::col("K").eq(Expr::integer(1)))).map_err(|e| format!("moving one key failed: {}", e))?;
    let moved = invariant(&mut p, "T", 1, "after UPDATE T SET K = 10 WHERE K = 1")?;
    if moved.iter().map(|r| r[0].clone()).collect::<Vec<_>>() != vec![Value::Int(2), Value::Int(3), Value::Int(10)] {
        return Err(format!("after moving key 1 to 10 the table reads {:?}", moved));
    }
    // composite key: one component assigned so that two rows collide
    let before = invariant(&mut p, "C", 2, "setup")?;
    let r = p.update_rows(Update::table("C").set("B", Value::Int(1)).with(Expr::col("A").eq(Expr::string("x"))));
    let after = invariant(&mut p, "C", 2, "after UPDATE C SET B = 1 WHERE A = 'x'")?;
    if r.is_err() && after != before {
        return Err("a refused composite-key update changed the table".into());
    }
    // composite key: order changes without collision
    p.update_rows(Update::table("C").set("A", Value::from("z")).with(Expr::col("V").eq(Expr::integer(100)))).map_err(|e| format!("moving a composite key failed: {}", e))?;
    invariant(&mut p, "C", 2, "after UPDATE C SET A = 'z' WHERE V = 100")?;
    // the empty string is the null value: refused where null is, and one key with it
    p.create_table("E1", vec![Column::build("K").primary_key().string(0), Column::build("V").nullable().int16()]).map_err(|e| e.to_string())?;
    p.create_table("E2", vec![Column::build("K").primary_key().nullable().string(0), Column::build("V").nullable().string(0)]).map_err(|e| e.to_string())?;
    let _ = p.insert_rows(Insert::into("E1").row(vec![Value::from(""), Value::Int(1)]));
    let _ = p.insert_rows(Insert::into("E1").row(vec![Value::from(""), Value::Int(2)]));
    let _ = p.insert_rows(Insert::into("E2").row(vec![Value::Null, Value::from("x")]));
    let _ = p.insert_rows(Insert::into("E2").row(vec![Value::from(""), Value::from("y")]));
    let _ = p.insert_rows(Insert::into("E2").row(vec![Value::from("k"), Value::from("")]));
    let _ = p.update_rows(Update::table("E2").set("K", Value::from("")).with(Expr::col("K").eq(Expr::string("k"))));
    for t in ["E1", "E2"] {
        let rows = invariant_at(&mut p, t, 0, "after inserting empty strings and nulls")?;
        let cols: Vec<Column> = p.get_table(t).ok_or("table missing")?.columns().to_vec();
        for r in rows.iter() {
            for (c, v) in cols.iter().zip(r.iter()) {
                if !c.is_valid_value(v) {
                    return Err(format!("table {} stores {:?} in column {:?}, which does not admit it", t, v, c.name()));
                }
            }
        }
    }
    // a table whose primary-key column is not the leading column
    p.create_table("N", vec![Column::build("Label").nullable().string(0), Column::build("Id").primary_key().int32()]).map_err(|e| e.to_string())?;
    p.insert_rows(Insert::into("N").rows(vec![
        vec![Value::from("c"), Value::Int(1)],
        vec![Value::from("b"), Value::Int(2)],
        vec![Value::from("a"), Value::Int(3)],
    ]))
    .map_err(|e| e.to_string())?;
    let n0 = invariant_at(&mut p, "N", 1, "after inserting into N")?;
    let r = p.update_rows(Update::table("N").set("Id", Value::Int(3)).with(Expr::col("Id").lt(Expr::integer(3))));
    let n1 = invariant_at(&mut p, "N", 1, "after UPDATE N SET Id = 3 WHERE Id < 3")?;
    if r.is_err() && n1 != n0 {
        return Err("a refused key update on N changed the table".into());
    }
    p.update_rows(Update::table("N").set("Id", Value::Int(7)).with(Expr::col("Id").eq(Expr::integer(1)))).map_err(|e| format!("moving a key of N failed: {}", e))?;
    invariant_at(&mut p, "N", 1, "after UPDATE N SET Id = 7 WHERE Id = 1")?;
    p.flush().map_err(|e| e.to_string())?;
    drop(p);
    let mut q = Package::open(m.clone()).map_err(|e| format!("reopen failed: {}", e))?;
    invariant_at(&mut q, "N", 1, "after reopen")?;
    invariant(&mut q, "T", 1, "after reopen")?;
    invariant(&mut q, "C", 2, "after reopen")?;
    Ok(())
}

/// insert / update / delete / select against a plain in-memory model, with the frame condition
fn s_relational() -> Result<(), String> {
    type Tab = Vec<(i32, Option<String>)>;
    fn read(p: &mut Package<Medium>, t: &str) -> Result<Tab, String> {
        let rows = p.select_rows(Select::table(t)).map_err(|e| format!("select failed: {}", e))?;
        let n = rows.len();
        let v: Tab = rows.map(|r| (r[0].as_int().unwrap(), r[1].as_str().map(|s| s.to_string()))).collect();
        if v.len() != n {
            return Err(format!("Rows::len() reported {} rows but {} were yielded", n, v.len()));
        }
        Ok(v)
    }
    fn agree(p: &mut Package<Medium>, what: &str, t: &Tab, u: &Tab) -> Result<(), String> {
        let (gt, gu) = (read(p, "T")?, read(p, "U")?);
        if &gt != t {
            return Err(format!("{}: table T reads {:?}, the model says {:?}", what, gt, t));
        }
        if &gu != u {
            return Err(format!("{}: table U (not the statement's table) reads {:?}, the model says {:?}", what, gu, u));
        }
        let mut buf = Vec::new();
        p.read_stream("Blob").map_err(|e| e.to_string())?.read_to_end(&mut buf).map_err(|e| e.to_string())?;
        if buf != b"blob-bytes" {
            return Err(format!("{}: the unrelated stream changed", what));
        }
        if p.summary_info().subject() != Some("subject") {
            return Err(format!("{}: the summary information changed", what));
        }
        Ok(())
    }
    let m = Medium::new();
    let mut p = Package::create(PackageType::Installer, m.clone()).map_err(|e| e.to_string())?;
    p.create_table("T", cols()).map_err(|e| e.to_string())?;
    p.create_table("U", cols()).map_err(|e| e.to_string())?;
    p.summary_info_mut().set_subject("subject");
    p.write_stream("Blob").map_err(|e| e.to_string())?.write_all(b"blob-bytes").map_err(|e| e.to_string())?;
    let mut t: Tab = Vec::new();
    let mut u: Tab = Vec::new();
    let s = |x: &str| Some(x.to_string());
    // inserts
    p.insert_rows(Insert::into("U").rows(vec![vec![Value::Int(1), Value::from("u1")], vec![Value::Int(2), Value::Null]])).map_err(|e| e.to_string())?;
    u.extend([(1, s("u1")), (2, None)]);
    agree(&mut p, "after INSERT INTO U", &t, &u)?;
    p.insert_rows(Insert::into("T").rows(vec![
        vec![Value::Int(3), Value::from("c")],
        vec![Value::Int(1), Value::from("a")],
        vec![Value::Int(2), Value::Null],
        vec![Value::Int(4), Value::from("a")],
    ]))
    .map_err(|e| e.to_string())?;
    t.extend([(1, s("a")), (2, None), (3, s("c")), (4, s("a"))]);
    agree(&mut p, "after INSERT INTO T", &t, &u)?;
    // selects with conditions, projections in the requested order
    for (what, cond, keep) in [
        ("K > 1", Expr::col("K").gt(Expr::integer(1)), Box::new(|r: &(i32, Option<String>)| r.0 > 1) as Box<dyn Fn(&(i32, Option<String>)) -> bool>),
        ("S = 'a'", Expr::col("S").eq(Expr::string("a")), Box::new(|r: &(i32, Option<String>)| r.1.as_deref() == Some("a"))),
        ("S = NULL", Expr::col("S").eq(Expr::null()), Box::new(|r: &(i32, Option<String>)| r.1.is_none())),
        ("K < 0", Expr::col("K").lt(Expr::integer(0)), Box::new(|_r: &(i32, Option<String>)| false)),
    ] {
        let rows = p.select_rows(Select::table("T").columns(&["S", "K"]).with(cond)).map_err(|e| e.to_string())?;
        let n = rows.len();
        let got: Vec<(Option<String>, i32)> = rows.map(|r| (r[0].as_str().map(|x| x.to_string()), r[1].as_int().unwrap())).collect();
        let want: Vec<(Option<String>, i32)> = t.iter().filter(|r| keep(r)).map(|r| (r.1.clone(), r.0)).collect();
        if got != want || n != want.len() {
            return Err(format!("SELECT S, K FROM T WHERE {} returned {:?} (len() {}), the model says {:?}", what, got, n, want));
        }
    }
    // updates
    p.update_rows(Update::table("T").set("S", Value::from("z")).with(Expr::col("K").ge(Expr::integer(3)))).map_err(|e| e.to_string())?;
    for r in t.iter_mut().filter(|r| r.0 >= 3) {
        r.1 = s("z");
    }
    agree(&mut p, "after UPDATE T SET S = 'z' WHERE K >= 3", &t, &u)?;
    p.update_rows(Update::table("T").set("S", Value::Null).with(Expr::col("S").eq(Expr::string("a")))).map_err(|e| e.to_string())?;
    for r in t.iter_mut().filter(|r| r.1.as_deref() == Some("a")) {
        r.1 = None;
    }
    agree(&mut p, "after UPDATE T SET S = NULL WHERE S = 'a'", &t, &u)?;
    p.update_rows(Update::table("U").set("S", Value::from("all"))).map_err(|e| e.to_string())?;
    for r in u.iter_mut() {
        r.1 = s("all");
    }
    agree(&mut p, "after UPDATE U SET S = 'all'", &t, &u)?;
    // two assignments in one statement, and a partially consumed iterator's len()
    p.create_table("W", vec![Column::build("K").primary_key().int32(), Column::build("S").nullable().string(0), Column::build("N").nullable().int16()])
        .map_err(|e| e.to_string())?;
    p.insert_rows(Insert::into("W").rows(vec![vec![Value::Int(1), Value::from("p"), Value::Int(10)], vec![Value::Int(2), Value::from("q"), Value::Int(20)], vec![Value::Int(3), Value::Null, Value::Null]]))
        .map_err(|e| e.to_string())?;
    p.update_rows(Update::table("W").set("N", Value::Int(7)).set("S", Value::from("both")).with(Expr::col("K").ne(Expr::integer(2)))).map_err(|e| e.to_string())?;
    {
        let mut rows = p.select_rows(Select::table("W")).map_err(|e| e.to_string())?;
        if rows.len() != 3 {
            return Err(format!("fresh Rows over 3 rows reports len() {}", rows.len()));
        }
        let first = rows.next().ok_or("no first row")?;
        if rows.len() != 2 {
            return Err(format!("after one next() Rows over 3 rows reports len() {}", rows.len()));
        }
        let mut got: Vec<(Value, Value, Value)> = vec![(first[0].clone(), first[1].clone(), first[2].clone())];
        got.extend(rows.map(|r| (r[0].clone(), r[1].clone(), r[2].clone())));
        let want = vec![
            (Value::Int(1), Value::from("both"), Value::Int(7)),
            (Value::Int(2), Value::from("q"), Value::Int(20)),
            (Value::Int(3), Value::from("both"), Value::Int(7)),
        ];
        if got != want {
            return Err(format!("after UPDATE W SET N = 7, S = 'both' WHERE K != 2 the table reads {:?}, the model says {:?}", got, want));
        }
    }
    agree(&mut p, "after UPDATE W", &t, &u)?;
    // deletes
    p.delete_rows(Delete::from("T").with(Expr::col("K").eq(Expr::integer(2)).or(Expr::col("S").eq(Expr::string("z")).and(Expr::col("K").lt(Expr::integer(4)))))).map_err(|e| e.to_string())?;
    t.retain(|r| !(r.0 == 2 || (r.1.as_deref() == Some("z") && r.0 < 4)));
    agree(&mut p, "after DELETE FROM T WHERE K = 2 OR S = 'z' AND K < 4", &t, &u)?;
    p.delete_rows(Delete::from("T").with(Expr::col("K").eq(Expr::integer(99)))).map_err(|e| e.to_string())?;
    agree(&mut p, "after DELETE FROM T WHERE K = 99", &t, &u)?;
    p.flush().map_err(|e| e.to_string())?;
    drop(p);
    let mut q = Package::open(m.clone()).map_err(|e| format!("reopen failed: {}", e))?;
    agree(&mut q, "after reopen", &t, &u)?;
    q.delete_rows(Delete::from("U")).map_err(|e| e.to_string())?;
    u.clear();
    agree(&mut q, "after DELETE FROM U", &t, &u)?;
    Ok(())
}

/// table definitions that pass the name checks but cannot be stored in the catalog tables are refused
/// with nothing changed (live and after reopen)
fn s_create_rejected() -> Result<(), String> {
    fn observe(p: &mut Package<Medium>) -> Result<Vec<String>, String> {
        let mut out: Vec<String> = p.tables().map(|t| format!("table {} {:?}", t.name(), t.columns().iter().map(|c| c.name().to_string()).collect::<Vec<_>>())).collect();
        for t in ["_Tables", "_Columns", "_Validation", "T"] {
            let rows = p.select_rows(Select::table(t)).map_err(|e| format!("select {} failed: {}", t, e))?;
            for r in rows {
                out.push(format!("{}: {:?}", t, (0..r.len()).map(|i| r[i].clone()).collect::<Vec<_>>()));
            }
        }
        Ok(out)
    }
    let m = Medium::new();
    let mut p = Package::create(PackageType::Installer, m.clone()).map_err(|e| e.to_string())?;
    p.create_table("T", cols()).map_err(|e| e.to_string())?;
    p.insert_rows(Insert::into("T").row(vec![Value::Int(1), Value::from("one")])).map_err(|e| e.to_string())?;
    p.flush().map_err(|e| e.to_string())?;
    let before = observe(&mut p)?;
    let long_col = "C".repeat(40);
    let long_tab = "T".repeat(40);
    let many: Vec<String> = (0..60).map(|i| format!("value{:02}", i)).collect();
    let many_refs: Vec<&str> = many.iter().map(|s| s.as_str()).collect();
    let defs: Vec<(&str, String, Vec<Column>)> = vec![
        ("a 40-character column name", "New1".to_string(), vec![Column::build("K").primary_key().int16(), Column::build(long_col.as_str()).nullable().int16()]),
        ("a 40-character table name", long_tab.clone(), vec![Column::build("K").primary_key().int16()]),
        ("an enumeration whose joined text exceeds 255 characters", "New3".to_string(), vec![Column::build("K").primary_key().int16(), Column::build("E").nullable().enum_values(&many_refs).string(16)]),
        ("an enumeration value containing ';'", "New5".to_string(), vec![Column::build("K").primary_key().int16(), Column::build("E").nullable().enum_values(&["a;b", "c"]).string(8)]),
        ("an empty enumeration value", "New6".to_string(), vec![Column::build("K").primary_key().int16(), Column::build("E").nullable().enum_values(&[""]).string(8)]),
        ("a 70-character column name", "New4".to_string(), vec![Column::build("K").primary_key().int16(), Column::build("D".repeat(70).as_str()).nullable().int16()]),
    ];
    for (what, name, columns) in defs {
        let r = quiet_catch(|| p.create_table(name.clone(), columns));
        match r {
            Err(_) => return Err(format!("create_table with {} panics", what)),
            Ok(Ok(())) => {
                // accepted: then it must be fully there, live and after reopen; drop it again
                if !p.has_table(&name) {
                    return Err(format!("create_table with {} returns Ok but the table is missing", what));
                }
                // accepted: the schema must reopen as created
                let created: Vec<Option<Vec<String>>> = p.get_table(&name).unwrap().columns().iter().map(|c| c.enum_values().map(|v| v.to_vec())).collect();
                p.flush().map_err(|e| e.to_string())?;
                let q = Package::open(Cursor::new(m.snapshot())).map_err(|e| format!("reopen after create_table with {} failed: {}", what, e))?;
                let reopened: Vec<Option<Vec<String>>> = q.get_table(&name).ok_or("table missing after reopen")?.columns().iter().map(|c| c.enum_values().map(|v| v.to_vec())).collect();
                if created != reopened {
                    return Err(format!("create_table with {} is accepted, but the enumerations reopen as {:?} instead of {:?}", what, reopened, created));
                }
                p.drop_table(&name).map_err(|e| format!("dropping the table created with {} failed: {}", what, e))?;
            }
            Ok(Err(_)) => {}
        }
        let after = observe(&mut p)?;
        if after != before {
            let extra: Vec<&String> = after.iter().filter(|x| !before.contains(x)).collect();
            return Err(format!("create_table with {} returned an error (or was undone) but the package changed: {:?}", what, extra));
        }
    }
    p.into_inner().map_err(|e| e.to_string())?;
    let mut q = Package::open(m.clone()).map_err(|e| format!("reopen after rejected create_table calls failed: {}", e))?;
    if observe(&mut q)? != before {
        return Err("after rejected create_table calls the reopened package differs".into());
    }
    Ok(())
}

/// catch_unwind without the default hook's "panicked at" output (the driver reads that as an uncaught panic)
fn quiet_catch<T>(f: impl FnOnce() -> T) -> std::thread::Result<T> {
    let hook = std::panic::take_hook();
    std::panic::set_hook(Box::new(|_| {}));
    let r = std::panic::catch_unwind(std::panic::AssertUnwindSafe(f));
    std::panic::set_hook(hook);
    r
}

/// projections keep the requested order; unknown names in projections and filters are errors
fn s_select_names() -> Result<(), String> {
    let m = Medium::new();
    let mut p = Package::create(PackageType::Installer, m.clone()).map_err(|e| e.to_string())?;
    p.create_table("L", vec![Column::build("K").primary_key().int32(), Column::build("S").nullable().string(0), Column::build("N").nullable().int16()])
        .map_err(|e| e.to_string())?;
    p.insert_rows(Insert::into("L").row(vec![Value::Int(1), Value::from("one"), Value::Int(7)])).map_err(|e| e.to_string())?;
    {
        let rows = p.select_rows(Select::table("L").columns(&["N", "K", "S"])).map_err(|e| e.to_string())?;
        let names: Vec<String> = rows.columns().iter().map(|c| c.name().to_string()).collect();
        let got: Vec<Vec<Value>> = rows.map(|r| (0..r.len()).map(|i| r[i].clone()).collect()).collect();
        if names != ["N", "K", "S"] || got != vec![vec![Value::Int(7), Value::Int(1), Value::from("one")]] {
            return Err(format!("projection N,K,S returned columns {:?} rows {:?}", names, got));
        }
    }
    for (what, sel) in [
        ("projection", Select::table("L").columns(&["K", "Nope"])),
        ("projection", Select::table("L").columns(&["Nope", "K"])),
        ("filter", Select::table("L").with(Expr::col("Nope").eq(Expr::integer(1)))),
        ("filter", Select::table("L").with(Expr::col("K").eq(Expr::col("Nope")))),
    ] {
        let r = quiet_catch(|| p.select_rows(sel).map(|rows| rows.count()));
        match r {
            Err(_) => return Err(format!("a {} naming an unknown column panics instead of returning an error", what)),
            Ok(Ok(n)) => return Err(format!("a {} naming an unknown column succeeds with {} rows", what, n)),
            Ok(Err(_)) => {}
        }
    }
    Ok(())
}

/// unknown names in a join condition are errors, not panics
fn s_join_names() -> Result<(), String> {
    let m = Medium::new();
    let mut p = Package::create(PackageType::Installer, m.clone()).map_err(|e| e.to_string())?;
    p.create_table("L", cols()).map_err(|e| e.to_string())?;
    p.create_table("R", cols()).map_err(|e| e.to_string())?;
    p.insert_rows(Insert::into("L").row(vec![Value::Int(1), Value::from("one")])).map_err(|e| e.to_string())?;
    p.insert_rows(Insert::into("R").row(vec![Value::Int(1), Value::from("uno")])).map_err(|e| e.to_string())?;
    for left in [false, true] {
        for name in ["Nope", "K", "L.Nope", "X.K"] {
            let on = Expr::col("L.K").eq(Expr::col(name));
            let sel = if left { Select::table("L").left_join(Select::table("R"), on) } else { Select::table("L").inner_join(Select::table("R"), on) };
            let r = quiet_catch(|| p.select_rows(sel).map(|rows| rows.count()));
            match r {
                Err(_) => return Err(format!("{} join whose condition names the unknown column {:?} panics instead of returning an error", if left { "left" } else { "inner" }, name)),
                Ok(Ok(n)) => return Err(format!("join whose condition names the unknown column {:?} succeeds with {} rows", name, n)),
                Ok(Err(_)) => {}
            }
        }
    }
    Ok(())
}

#[test]
fn replay_protocol() {
    report("create_rejected", guarded(|| s_create_rejected()));
    report("relational", guarded(|| s_relational()));
    report("keys", guarded(|| s_keys()));
    report("join_names", guarded(|| s_join_names()));
    report("select_names", guarded(|| s_select_names()));
    report("join", guarded(|| s_join()));
    report("update_accounting", guarded(|| s_update_accounting()));
    report("gate", guarded(|| s_gate()));
    report("streams", guarded(|| s_streams()));
    report("summary_after_table_flush", guarded(|| s_summary_after_table(0)));
    report("summary_after_table_into_inner", guarded(|| s_summary_after_table(1)));
    report("summary_after_table_drop", guarded(|| s_summary_after_table(2)));
    report("summary_twice", guarded(|| s_summary_twice()));
    report("codepage", guarded(|| s_codepage()));
    report("rows_flush", guarded(|| s_rows(0)));
    report("rows_into_inner", guarded(|| s_rows(1)));
    report("rows_drop", guarded(|| s_rows(2)));
    report("pool_shrinks", guarded(|| s_pool_shrinks()));
    report("readonly", guarded(|| s_readonly()));
    report("faults", guarded(|| s_faults()));
}

/// C10: summary strings survive saving under every code page, also after switching code pages back and forth
#[test]
fn replay_summary_codepages() {
    use crate::internal::codepage::CodePage;
    let pages = [CodePage::Windows1252, CodePage::Utf8, CodePage::Windows1250, CodePage::Utf8, CodePage::Windows1252];
    let mut witness: Option<String> = None;
    'outer: for first in pages.iter() {
        for second in pages.iter() {
            let m = Medium::new();
            let r = quiet_catch(|| -> Result<Option<String>, String> {
                let mut p = Package::create(PackageType::Installer, m.clone()).map_err(|e| e.to_string())?;
                p.summary_info_mut().set_codepage(*first);
                p.summary_info_mut().set_author("J\u{fc}rgen \u{e9}t\u{e9}");
                p.flush().map_err(|e| e.to_string())?;
                p.summary_info_mut().set_codepage(*second);
                p.summary_info_mut().set_subject("b\u{e9}b\u{e9} \u{fc}");
                p.into_inner().map_err(|e| e.to_string())?;
                let q = Package::open(Cursor::new(m.snapshot())).map_err(|e| format!("reopen failed: {}", e))?;
                let (a, s, c) = (q.summary_info().author().map(|x| x.to_string()), q.summary_info().subject().map(|x| x.to_string()), q.summary_info().codepage());
                if a.as_deref() != Some("J\u{fc}rgen \u{e9}t\u{e9}") || s.as_deref() != Some("b\u{e9}b\u{e9} \u{fc}") || c != *second {
                    return Ok(Some(format!("author {:?}, subject {:?}, code page {:?}", a, s, c)));
                }
                Ok(None)
            });
            match r {
                Err(_) => {
                    witness = Some(format!("switching the summary code page from {:?} to {:?} panics", first, second));
                    break 'outer;
                }
                Ok(Err(e)) => {
                    witness = Some(format!("switching the summary code page from {:?} to {:?}: {}", first, second, e));
                    break 'outer;
                }
                Ok(Ok(Some(w))) => {
                    witness = Some(format!("after switching the summary code page from {:?} to {:?} and reopening: {}", first, second, w));
                    break 'outer;
                }
                Ok(Ok(None)) => {}
            }
        }
    }
    // double-byte code pages with text whose encoded length differs from its character count
    if witness.is_none() {
        for page in [CodePage::Windows932, CodePage::Windows936, CodePage::Windows949, CodePage::Windows950, CodePage::Windows951, CodePage::Utf8] {
            let m = Medium::new();
            let r = quiet_catch(|| -> Result<Option<String>, String> {
                let mut p = Package::create(PackageType::Installer, m.clone()).map_err(|e| e.to_string())?;
                p.summary_info_mut().set_codepage(page);
                p.summary_info_mut().set_title("\u{4e2d}\u{6587}");
                p.summary_info_mut().set_author("\u{4e2d}");
                p.summary_info_mut().set_subject("plain");
                p.into_inner().map_err(|e| e.to_string())?;
                let q = Package::open(Cursor::new(m.snapshot())).map_err(|e| format!("reopen failed: {}", e))?;
                let got = (q.summary_info().title().map(|x| x.to_string()), q.summary_info().author().map(|x| x.to_string()), q.summary_info().subject().map(|x| x.to_string()));
                if got != (Some("\u{4e2d}\u{6587}".to_string()), Some("\u{4e2d}".to_string()), Some("plain".to_string())) {
                    return Ok(Some(format!("{:?}", got)));
                }
                Ok(None)
            });
            match r {
                Err(_) => witness = Some(format!("saving CJK summary strings under {:?} panics", page)),
                Ok(Err(e)) => witness = Some(format!("CJK summary strings under {:?}: {}", page, e)),
                Ok(Ok(Some(w))) => witness = Some(format!("CJK summary strings under {:?} reopen as {}", page, w)),
                Ok(Ok(None)) => {}
            }
            if witness.is_some() {
                break;
            }
        }
    }
    println!("OUT differs={}", if witness.is_some() { 1 } else { 0 });
    if let Some(w) = witness {
        println!("OUT witness={}", w);
    }
}

/// C20: a table can be filled to the number of rows the reader accepts; one more row is refused and the
/// package still reopens with the table intact
#[test]
fn replay_row_limit() {
    let run = || -> Result<Option<String>, String> {
        let m = Medium::new();
        let mut p = Package::create(PackageType::Installer, m.clone()).map_err(|e| e.to_string())?;
        p.create_table("Big", vec![Column::build("K").primary_key().int32(), Column::build("S").nullable().string(0)]).map_err(|e| e.to_string())?;
        let limit = 65536;
        p.insert_rows(Insert::into("Big").rows((1..=limit - 1).map(|i| vec![Value::Int(i), if i % 2 == 0 { Value::from("even") } else { Value::Null }]).collect()))
            .map_err(|e| format!("filling the table failed: {}", e))?;
        p.insert_rows(Insert::into("Big").row(vec![Value::Int(limit), Value::from("last")])).map_err(|e| format!("the {}th row is refused: {}", limit, e))?;
        let one_more = p.insert_rows(Insert::into("Big").row(vec![Value::Int(limit + 1), Value::from("RejectedMarkerOne")]));
        let two_more = p.insert_rows(Insert::into("Big").rows(vec![vec![Value::Int(limit + 2), Value::from("RejectedMarkerTwo")], vec![Value::Int(limit + 3), Value::Null]]));
        p.into_inner().map_err(|e| e.to_string())?;
        {
            use crate::internal::streamname;
            let mut comp = cfb::CompoundFile::open(Cursor::new(m.snapshot())).map_err(|e| e.to_string())?;
            let mut data = Vec::new();
            comp.open_stream(streamname::encode("_StringData", true)).map_err(|e| e.to_string())?.read_to_end(&mut data).map_err(|e| e.to_string())?;
            let hay = String::from_utf8_lossy(&data).to_string();
            if (one_more.is_err() && hay.contains("RejectedMarkerOne")) || (two_more.is_err() && hay.contains("RejectedMarkerTwo")) {
                return Ok(Some(format!("an insert refused for exceeding {} rows left the text of its rows in the saved string data", limit)));
            }
        }
        let mut q = match Package::open(Cursor::new(m.snapshot())) {
            Ok(q) => q,
            Err(e) => return Ok(Some(format!("after inserting beyond {} rows (results {:?}, {:?}) the package does not reopen: {}", limit, one_more.is_ok(), two_more.is_ok(), e))),
        };
        match q.select_rows(Select::table("Big")) {
            Ok(rows) => {
                let n = rows.count();
                if n != limit as usize || one_more.is_ok() || two_more.is_ok() {
                    return Ok(Some(format!("inserting beyond {} rows returned {:?} / {:?}; the reopened table has {} rows", limit, one_more.is_ok(), two_more.is_ok(), n)));
                }
            }
            Err(e) => return Ok(Some(format!("inserting beyond {} rows returned {:?} / {:?}; the saved table is then refused by the reader: {}", limit, one_more.is_ok(), two_more.is_ok(), e))),
        }
        Ok(None)
    };
    let w = match run() {
        Ok(w) => w,
        Err(e) => Some(e),
    };
    println!("OUT differs={}", if w.is_some() { 1 } else { 0 });
    if let Some(w) = w {
        println!("OUT witness={}", w);
    }
}
