use super::*;
use crate::internal::timestamp::Timestamp;
use std::time::{Duration, SystemTime, UNIX_EPOCH};

fn st_from_ns(ns: i128) -> Option<SystemTime> {
    let (neg, mag) = if ns < 0 { (true, (-ns) as u128) } else { (false, ns as u128) };
    let secs = (mag / 1_000_000_000) as u64;
    let nanos = (mag % 1_000_000_000) as u32;
    let d = Duration::new(secs, nanos);
    if neg {
        UNIX_EPOCH.checked_sub(d)
    } else {
        UNIX_EPOCH.checked_add(d)
    }
}

fn ns_of(st: SystemTime) -> i128 {
    match st.duration_since(UNIX_EPOCH) {
        Ok(d) => d.as_nanos() as i128,
        Err(e) => -(e.duration().as_nanos() as i128),
    }
}

fn tick_of(ts: Timestamp) -> u64 {
    let mut buf = Vec::new();
    ts.write_to(&mut buf).unwrap();
    u64::from_le_bytes([buf[0], buf[1], buf[2], buf[3], buf[4], buf[5], buf[6], buf[7]])
}

fn ts_of(tick: u64) -> Timestamp {
    let bytes = tick.to_le_bytes();
    Timestamp::read_from(&mut &bytes[..]).unwrap()
}

/// inputs: s=<ns since epoch> and/or t=<tick>; prints F(s), G(F(s)), F(G(F(s))), G(t), F(G(t))
#[test]
fn replay_c18() {
    let m = inputs();
    for key in ["s", "s1", "s2"] {
        if let Some(ns) = get_i128(&m, key) {
            match st_from_ns(ns) {
                Some(st) => {
                    let f = Timestamp::from_system_time(st);
                    let g = f.to_system_time();
                    let f2 = Timestamp::from_system_time(g);
                    println!("OUT F_{}={}", key, tick_of(f));
                    println!("OUT GF_{}={}", key, ns_of(g));
                    println!("OUT FGF_{}={}", key, tick_of(f2));
                }
                None => println!("OUT unrepresentable_{}=1", key),
            }
        }
    }
    for key in ["t", "t1", "t2"] {
        if let Some(t) = get_i128(&m, key) {
            let g = ts_of(t as u64).to_system_time();
            let f = Timestamp::from_system_time(g);
            println!("OUT G_{}={}", key, ns_of(g));
            println!("OUT FG_{}={}", key, tick_of(f));
        }
    }
}
