//! Native replay for C14: a code page (by id) against the encoding_rs table
//! of the Windows code page its identifier names.
use super::*;
use crate::internal::codepage::CodePage;

fn reference(name: &str) -> &'static encoding_rs::Encoding {
    match name {
        "SHIFT_JIS" => encoding_rs::SHIFT_JIS,
        "GBK" => encoding_rs::GBK,
        "EUC_KR" => encoding_rs::EUC_KR,
        "BIG5" => encoding_rs::BIG5,
        "WINDOWS_1250" => encoding_rs::WINDOWS_1250,
        "WINDOWS_1251" => encoding_rs::WINDOWS_1251,
        "WINDOWS_1252" => encoding_rs::WINDOWS_1252,
        "WINDOWS_1253" => encoding_rs::WINDOWS_1253,
        "WINDOWS_1254" => encoding_rs::WINDOWS_1254,
        "WINDOWS_1255" => encoding_rs::WINDOWS_1255,
        "WINDOWS_1256" => encoding_rs::WINDOWS_1256,
        "WINDOWS_1257" => encoding_rs::WINDOWS_1257,
        "WINDOWS_1258" => encoding_rs::WINDOWS_1258,
        "MACINTOSH" => encoding_rs::MACINTOSH,
        "X_MAC_CYRILLIC" => encoding_rs::X_MAC_CYRILLIC,
        "ISO_8859_2" => encoding_rs::ISO_8859_2,
        "ISO_8859_3" => encoding_rs::ISO_8859_3,
        "ISO_8859_4" => encoding_rs::ISO_8859_4,
        "ISO_8859_5" => encoding_rs::ISO_8859_5,
        "ISO_8859_6" => encoding_rs::ISO_8859_6,
        "ISO_8859_7" => encoding_rs::ISO_8859_7,
        "ISO_8859_8" => encoding_rs::ISO_8859_8,
        _ => encoding_rs::UTF_8,
    }
}

#[test]
fn replay_c14() {
    let m = inputs();
    let id = get_i128(&m, "page").unwrap_or(932) as i32;
    let want = m.get("want").cloned().unwrap_or_else(|| "SHIFT_JIS".to_string());
    let cp = CodePage::from_id(id).expect("known code page id");
    let enc = reference(&want);
    let mut differs = 0;
    'outer: for a in 0u16..=255 {
        let one = [a as u8];
        if cp.decode(&one) != enc.decode(&one).0 {
            println!("OUT witness=bytes {:02x?} decode to {:?}, the named Windows code page gives {:?}", one, cp.decode(&one), enc.decode(&one).0);
            differs = 1;
            break;
        }
        for b in 0u16..=255 {
            let two = [a as u8, b as u8];
            if cp.decode(&two) != enc.decode(&two).0 {
                println!("OUT witness=bytes {:02x?} decode to {:?}, the named Windows code page gives {:?}", two, cp.decode(&two), enc.decode(&two).0);
                differs = 1;
                break 'outer;
            }
        }
    }
    println!("OUT differs={}", differs);
}

/// Native replay for the chunk-loop law: strings whose encoding is longer than the 1024-byte scratch
/// buffer, with multi-byte characters placed so that one straddles every chunk boundary, must encode to
/// the concatenation of their characters' encodings and decode back.
#[test]
fn replay_c14_chunks() {
    let pages = [(932, '\u{65e5}'), (936, '\u{4e2d}'), (949, '\u{d55c}'), (950, '\u{4e2d}'), (1252, '\u{e9}'), (65001, '\u{4e2d}')];
    let mut witness: Option<String> = None;
    let mut checked = 0u64;
    'outer: for (id, wide) in pages.iter() {
        let cp = CodePage::from_id(*id).expect("known code page id");
        for shift in 0..4usize {
            for total in [600usize, 1100, 2300] {
                for unmappable in [false, true] {
                    let mut s = String::new();
                    for _ in 0..shift {
                        s.push('a');
                    }
                    for i in 0..total {
                        if unmappable && i % 257 == 5 {
                            s.push('\u{1f600}');
                        } else {
                            s.push(*wide);
                        }
                    }
                    let whole = cp.encode(&s);
                    let mut parts: Vec<u8> = Vec::new();
                    for ch in s.chars() {
                        let mut b = [0u8; 4];
                        parts.extend(cp.encode(ch.encode_utf8(&mut b)));
                    }
                    checked += 1;
                    if whole != parts {
                        witness = Some(format!("code page {}: a {}-character string (shift {}, unmappable {}) encodes to {} bytes, its characters one by one to {} bytes", id, s.chars().count(), shift, unmappable, whole.len(), parts.len()));
                        break 'outer;
                    }
                    if !unmappable && cp.decode(&whole) != s {
                        witness = Some(format!("code page {}: a {}-character representable string does not decode back after encoding", id, s.chars().count()));
                        break 'outer;
                    }
                }
            }
        }
    }
    println!("OUT checked={}", checked);
    println!("OUT differs={}", if witness.is_some() { 1 } else { 0 });
    if let Some(w) = witness {
        println!("OUT witness={}", w);
    }
}
