//! Public-API confirmation of the C15 kernel finding: a medium whose k-th
//! write fails (transient or persistent), script create -> create_table ->
//! [arm] insert_rows -> flush.  If every call returned Ok, reopening the
//! bytes on the medium must show the inserted rows.
use super::*;
use crate::internal::column::Column;
use crate::internal::package::{Package, PackageType};
use crate::internal::query::{Insert, Select};
use crate::internal::value::Value;
use std::cell::RefCell;
use std::io::{self, Cursor, Read, Seek, SeekFrom, Write};
use std::rc::Rc;

struct Ctl {
    armed: bool,
    writes: usize,
    fail_at: usize,
    persistent: bool,
}

#[derive(Clone)]
struct Faulty {
    cur: Rc<RefCell<Cursor<Vec<u8>>>>,
    ctl: Rc<RefCell<Ctl>>,
}

impl Read for Faulty {
    fn read(&mut self, b: &mut [u8]) -> io::Result<usize> {
        self.cur.borrow_mut().read(b)
    }
}
impl Seek for Faulty {
    fn seek(&mut self, p: SeekFrom) -> io::Result<u64> {
        self.cur.borrow_mut().seek(p)
    }
}
impl Write for Faulty {
    fn write(&mut self, b: &[u8]) -> io::Result<usize> {
        {
            let mut c = self.ctl.borrow_mut();
            if c.armed {
                let k = c.writes;
                c.writes += 1;
                if k == c.fail_at || (c.persistent && k > c.fail_at) {
                    return Err(io::Error::new(io::ErrorKind::Other, "injected write fault"));
                }
            }
        }
        self.cur.borrow_mut().write(b)
    }
    fn flush(&mut self) -> io::Result<()> {
        Ok(())
    }
}

const NROWS: i32 = 700; // > 8 KiB of row data, so the stream buffer spills

/// returns (all calls Ok, number of writes issued while armed, reopened-state-matches)
fn script(fail_at: usize, persistent: bool) -> (bool, usize, bool) {
    let ctl = Rc::new(RefCell::new(Ctl { armed: false, writes: 0, fail_at, persistent }));
    let cur = Rc::new(RefCell::new(Cursor::new(Vec::new())));
    let medium = Faulty { cur: cur.clone(), ctl: ctl.clone() };
    let mut pkg = Package::create(PackageType::Installer, medium).unwrap();
    pkg.create_table(
        "T",
        vec![Column::build("K").primary_key().int32(), Column::build("V").nullable().int32(), Column::build("S").nullable().string(0)],
    )
    .unwrap();
    pkg.flush().unwrap();
    ctl.borrow_mut().armed = true;
    let rows: Vec<Vec<Value>> = (1..=NROWS).map(|i| vec![Value::Int(i), Value::Int(i * 7), Value::from("some text")]).collect();
    let ok1 = pkg.insert_rows(Insert::into("T").rows(rows)).is_ok();
    let ok2 = ok1 && pkg.flush().is_ok();
    ctl.borrow_mut().armed = false;
    let writes = ctl.borrow().writes;
    std::mem::forget(pkg); // crash right after the successful flush
    if !(ok1 && ok2) {
        return (false, writes, true);
    }
    let bytes = cur.borrow().get_ref().clone();
    let matches = match Package::open(Cursor::new(bytes)) {
        Ok(mut p) => match p.select_rows(Select::table("T")) {
            Ok(rows) => {
                let v: Vec<_> = rows.collect();
                v.len() == NROWS as usize
                    && v.iter().enumerate().all(|(i, r)| {
                        r[0] == Value::Int(i as i32 + 1) && r[1] == Value::Int((i as i32 + 1) * 7) && r[2] == Value::from("some text")
                    })
            }
            Err(_) => false,
        },
        Err(_) => false,
    };
    (true, writes, matches)
}

#[test]
fn replay_c15() {
    let (_ok, total, _m) = script(usize::MAX, false);
    println!("OUT writes_in_script={}", total);
    let mut bad = Vec::new();
    for persistent in [false, true] {
        for k in 0..total {
            let (ok, _w, matches) = script(k, persistent);
            if ok && !matches {
                bad.push((k, persistent));
            }
        }
    }
    println!("OUT schedules_ok_but_lost={}", bad.len());
    if let Some((k, p)) = bad.first() {
        println!("OUT first_bad=write {} {}", k, if *p { "persistent" } else { "transient" });
    }
}
