//! Native replays for C20 (capacity limits).
use super::*;
use crate::internal::column::Column;
use crate::internal::package::{Package, PackageType};
use crate::internal::table::Table;
use std::io::Cursor;

/// inputs: num_columns=<n> -> does create_table accept a table with n columns?
///         rows=<r>        -> does Table::read_rows accept a stream holding exactly r rows (one Int16 column)?
#[test]
fn replay_c20() {
    let m = inputs();
    if let Some(n) = get_i128(&m, "num_columns") {
        let n = n as usize;
        let mut cols = Vec::new();
        for i in 0..n {
            let b = Column::build(format!("C{}", i));
            cols.push(if i == 0 { b.primary_key().int16() } else { b.nullable().int16() });
        }
        let mut p = Package::create(PackageType::Installer, Cursor::new(Vec::new())).unwrap();
        let r = p.create_table("T", cols);
        println!("OUT create_table_ok={}", r.is_ok() as u8);
    }
    if let Some(r) = get_i128(&m, "rows") {
        let table = Table::new("T".to_string(), vec![Column::build("A").primary_key().int16()], false);
        let data = vec![1u8; (r as usize) * 2];
        let res = table.read_rows(Cursor::new(data));
        match res {
            Ok(rows) => println!("OUT read_rows=ok:{}", rows.len()),
            Err(e) => println!("OUT read_rows=err:{}", e),
        }
    }
}
