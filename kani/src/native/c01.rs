//! Public-API confirmations for C01 kernel findings.
use super::*;
use crate::internal::column::Column;
use crate::internal::package::{Package, PackageType};
use crate::internal::query::{Insert, Select};
use crate::internal::value::Value;
use std::io::Cursor;

/// insert a row whose string cell is "", save, reopen, select.
#[test]
fn replay_c01_empty_string() {
    let mut pkg = Package::create(PackageType::Installer, Cursor::new(Vec::new())).unwrap();
    pkg.create_table("T", vec![Column::build("K").primary_key().int32(), Column::build("S").nullable().string(0), Column::build("U").nullable().string(0)])
        .unwrap();
    let ins = pkg.insert_rows(Insert::into("T").row(vec![Value::Int(1), Value::from(""), Value::from("xyz")]));
    println!("OUT insert_ok={}", ins.is_ok() as u8);
    let cursor = match pkg.into_inner() {
        Ok(c) => c,
        Err(e) => {
            println!("OUT save_err={}", e);
            return;
        }
    };
    match Package::open(cursor) {
        Err(e) => println!("OUT reopen=error: {}", e),
        Ok(mut p) => match p.select_rows(Select::table("T")) {
            Err(e) => println!("OUT reopen=select error: {}", e),
            Ok(rows) => {
                let v: Vec<_> = rows.collect();
                let ok = v.len() == 1
                    && v[0][0] == Value::Int(1)
                    && (v[0][1] == Value::Null || v[0][1] == Value::from(""))
                    && v[0][2] == Value::from("xyz");
                println!("OUT reopen={}", if ok { "same".to_string() } else { format!("different: {:?} {:?} {:?}", v[0][0], v[0][1], v[0][2]) });
            }
        },
    }
}

/// C08: dropping a table that still holds rows must release the rows' strings:
/// no text of the dropped table may remain in the saved string data.
#[test]
fn replay_c08_drop_table_strings() {
    use crate::internal::streamname;
    let mut pkg = Package::create(PackageType::Installer, Cursor::new(Vec::new())).unwrap();
    pkg.create_table("Doomed", vec![Column::build("K").primary_key().int32(), Column::build("S").nullable().string(0)]).unwrap();
    pkg.insert_rows(Insert::into("Doomed").row(vec![Value::Int(1), Value::from("SecretTextOfDroppedTable")])).unwrap();
    pkg.flush().unwrap();
    pkg.drop_table("Doomed").unwrap();
    let cursor = pkg.into_inner().unwrap();
    let mut comp = cfb::CompoundFile::open(cursor).unwrap();
    let mut data = Vec::new();
    {
        use std::io::Read;
        let mut s = comp.open_stream(streamname::encode("_StringData", true)).unwrap();
        s.read_to_end(&mut data).unwrap();
    }
    let hay = String::from_utf8_lossy(&data).to_string();
    println!("OUT leftover={}", if hay.contains("SecretTextOfDroppedTable") { 1 } else { 0 });
    println!("OUT also_table_name_left={}", if hay.contains("Doomed") { 1 } else { 0 });
}
