//! Native replay for C13's constructor-structure law (engine M): build every
//! operator application up to depth 2 once with column operands and once with
//! every subset of the operands replaced by the literal holding the same value,
//! evaluate both on the row, and report the first pair that disagrees.
use crate::internal::column::Column;
use crate::internal::expr::Expr;
use crate::internal::table::{Row, Table};
use crate::internal::value::Value;

const BIN: [&str; 17] = ["Eq", "Ne", "Lt", "Le", "Gt", "Ge", "Add", "Sub", "Mul", "Div", "BitAnd", "BitOr", "BitXor", "Shl", "Shr", "And", "Or"];
const UN: [&str; 3] = ["Neg", "BitNot", "BoolNot"];

fn bin(op: &str, a: Expr, b: Expr) -> Expr {
    match op {
        "Eq" => a.eq(b),
        "Ne" => a.ne(b),
        "Lt" => a.lt(b),
        "Le" => a.le(b),
        "Gt" => a.gt(b),
        "Ge" => a.ge(b),
        "Add" => a + b,
        "Sub" => a - b,
        "Mul" => a * b,
        "Div" => a / b,
        "BitAnd" => a & b,
        "BitOr" => a | b,
        "BitXor" => a ^ b,
        "Shl" => a << b,
        "Shr" => a >> b,
        "And" => a.and(b),
        _ => a.or(b),
    }
}

fn un(op: &str, a: Expr) -> Expr {
    match op {
        "Neg" => -a,
        "BitNot" => a.bitinv(),
        _ => a.not(),
    }
}

fn values() -> Vec<Value> {
    vec![Value::Null, Value::Int(0), Value::Int(1), Value::Int(2), Value::Int(-7), Value::Int(i32::MAX), Value::from("a"), Value::from("")]
}

fn leaf(i: usize, literal: bool, vals: &[Value]) -> Expr {
    if literal {
        match vals[i] {
            Value::Null => Expr::null(),
            Value::Int(n) => Expr::integer(n),
            Value::Str(ref s) => Expr::string(s.clone()),
        }
    } else {
        Expr::col(format!("C{}", i))
    }
}

#[test]
fn replay_constructors() {
    let vals = values();
    let cols: Vec<Column> = (0..vals.len()).map(|i| Column::build(format!("C{}", i).as_str()).nullable().int32()).collect();
    let table = Table::new(String::from("T"), cols, false);
    let row = Row::new(table, vals.clone());
    let n = vals.len();
    let mut witness: Option<String> = None;
    let mut checked = 0u64;
    // unary over unary, unary over binary
    'outer: for o in UN {
        for i in UN {
            for a in 0..n {
                let lazy = un(o, un(i, leaf(a, false, &vals))).eval(&row);
                let fold = un(o, un(i, leaf(a, true, &vals))).eval(&row);
                checked += 1;
                if lazy != fold {
                    witness = Some(format!("{}({}({:?})): with a column {:?}, with the literal {:?}", o, i, vals[a], lazy, fold));
                    break 'outer;
                }
            }
        }
        for b in BIN {
            for x in 0..n {
                for y in 0..n {
                    let lazy = un(o, bin(b, leaf(x, false, &vals), leaf(y, false, &vals))).eval(&row);
                    for mask in 1..4u8 {
                        let got = un(o, bin(b, leaf(x, mask & 1 != 0, &vals), leaf(y, mask & 2 != 0, &vals))).eval(&row);
                        checked += 1;
                        if got != lazy {
                            witness = Some(format!("{}({:?} {} {:?}) literal mask {}: columns give {:?}, literals give {:?}", o, vals[x], b, vals[y], mask, lazy, got));
                            break 'outer;
                        }
                    }
                }
            }
        }
    }
    // binary over (unary, leaf) and (leaf, unary)
    if witness.is_none() {
        'outer2: for b in BIN {
            for u in UN {
                for x in 0..n {
                    for y in 0..n {
                        let lazy1 = bin(b, un(u, leaf(x, false, &vals)), leaf(y, false, &vals)).eval(&row);
                        let lazy2 = bin(b, leaf(x, false, &vals), un(u, leaf(y, false, &vals))).eval(&row);
                        for mask in 1..4u8 {
                            let g1 = bin(b, un(u, leaf(x, mask & 1 != 0, &vals)), leaf(y, mask & 2 != 0, &vals)).eval(&row);
                            let g2 = bin(b, leaf(x, mask & 1 != 0, &vals), un(u, leaf(y, mask & 2 != 0, &vals))).eval(&row);
                            checked += 2;
                            if g1 != lazy1 || g2 != lazy2 {
                                witness = Some(format!("{} with {} on one side, operands {:?}, {:?}, literal mask {}: {:?}/{:?} vs {:?}/{:?}", b, u, vals[x], vals[y], mask, lazy1, lazy2, g1, g2));
                                break 'outer2;
                            }
                        }
                    }
                }
            }
        }
    }
    println!("OUT checked={}", checked);
    println!("OUT differs={}", if witness.is_some() { 1 } else { 0 });
    if let Some(w) = witness {
        println!("OUT witness={}", w);
    }
}
