//! Native replay for C02's property-set code-page law: a property set encoded independently of the
//! library's writer, with the code-page property laid out before, between and after the string values
//! and listed anywhere in the directory, must read back with every string decoded in the declared code page.
use crate::internal::codepage::CodePage;
use crate::internal::propset::{PropertySet, PropertyValue};
use std::io::Cursor;

fn value_i2(v: i16) -> Vec<u8> {
    let mut b = vec![2, 0, 0, 0];
    b.extend_from_slice(&v.to_le_bytes());
    b.extend_from_slice(&[0, 0]);
    b
}

fn value_i4(v: i32) -> Vec<u8> {
    let mut b = vec![3, 0, 0, 0];
    b.extend_from_slice(&v.to_le_bytes());
    b
}

fn value_lpstr(text: &[u8]) -> Vec<u8> {
    let mut b = vec![30, 0, 0, 0];
    b.extend_from_slice(&(text.len() as u32 + 1).to_le_bytes());
    b.extend_from_slice(text);
    b.push(0);
    while b.len() % 4 != 0 {
        b.push(0);
    }
    b
}

fn stream(layout: &[(u32, Vec<u8>)], directory: &[usize]) -> Vec<u8> {
    let mut out: Vec<u8> = Vec::new();
    out.extend_from_slice(&[0xfe, 0xff, 0, 0, 10, 0, 2, 0]);
    out.extend_from_slice(&[0u8; 16]);
    out.extend_from_slice(&1u32.to_le_bytes());
    out.extend_from_slice(&[0xe0, 0x85, 0x9f, 0xf2, 0xf9, 0x4f, 0x68, 0x10, 0xab, 0x91, 0x08, 0x00, 0x2b, 0x27, 0xb3, 0xd9]);
    out.extend_from_slice(&48u32.to_le_bytes());
    let head = 8 + 8 * layout.len() as u32;
    let mut offs = Vec::new();
    let mut at = head;
    for (_, v) in layout {
        offs.push(at);
        at += v.len() as u32;
    }
    out.extend_from_slice(&at.to_le_bytes());
    out.extend_from_slice(&(layout.len() as u32).to_le_bytes());
    for &d in directory {
        out.extend_from_slice(&layout[d].0.to_le_bytes());
        out.extend_from_slice(&offs[d].to_le_bytes());
    }
    for (_, v) in layout {
        out.extend_from_slice(v);
    }
    out
}

#[test]
fn replay_propset_layouts() {
    let cp = (1u32, value_i2(1252));
    let title = (2u32, value_lpstr(b"Caf\xe9 Ol\xe9"));
    let author = (4u32, value_lpstr(b"Zo\xeb"));
    let count = (15u32, value_i4(7));
    let items = [cp, title, author, count];
    let perms: [[usize; 4]; 6] = [[0, 1, 2, 3], [1, 0, 2, 3], [1, 2, 0, 3], [1, 2, 3, 0], [3, 2, 1, 0], [2, 0, 3, 1]];
    let mut witness: Option<String> = None;
    let mut checked = 0;
    'outer: for lay in perms.iter() {
        let layout: Vec<(u32, Vec<u8>)> = lay.iter().map(|&i| items[i].clone()).collect();
        for dir in perms.iter() {
            checked += 1;
            let bytes = stream(&layout, dir);
            match PropertySet::read(Cursor::new(bytes)) {
                Err(e) => {
                    witness = Some(format!("layout {:?} / directory {:?}: refused: {}", lay, dir, e));
                    break 'outer;
                }
                Ok(ps) => {
                    let t = match ps.get(2) {
                        Some(PropertyValue::LpStr(s)) => s.clone(),
                        other => format!("{:?}", other.is_some()),
                    };
                    let a = match ps.get(4) {
                        Some(PropertyValue::LpStr(s)) => s.clone(),
                        other => format!("{:?}", other.is_some()),
                    };
                    if ps.codepage() != CodePage::Windows1252 || t != "Caf\u{e9} Ol\u{e9}" || a != "Zo\u{eb}" {
                        witness = Some(format!("layout order {:?}, directory order {:?}: code page {:?}, title {:?}, author {:?}", lay, dir, ps.codepage(), t, a));
                        break 'outer;
                    }
                }
            }
        }
    }
    println!("OUT checked={}", checked);
    println!("OUT differs={}", if witness.is_some() { 1 } else { 0 });
    if let Some(w) = witness {
        println!("OUT witness={}", w);
    }
}

/// Native replay for C09's PropertyValue::read totality law: the real reader on a family of short byte
/// strings (every type tag the reader knows plus unknown ones, string lengths 0, 1, exact, short of data, huge):
/// it must return a value or an error, never panic.
#[test]
fn replay_propvalue_read_total() {
    let mut inputs: Vec<Vec<u8>> = Vec::new();
    for tag in [0u32, 1, 2, 3, 16, 30, 64, 5, 0xffff_ffff] {
        for tail in [&[][..], &[0][..], &[0, 0, 0, 0][..], &[1, 0, 0, 0, 0][..], &[2, 0, 0, 0, b'a', 0][..], &[2, 0, 0, 0, b'a', b'b'][..],
                     &[0xff, 0xff, 0xff, 0xff, 0][..], &[0, 0, 0, 0, 0, 0, 0, 0][..], &[5, 0, 0, 0, b'a'][..]] {
            let mut b = tag.to_le_bytes().to_vec();
            b.extend_from_slice(tail);
            inputs.push(b);
        }
    }
    let mut witness: Option<String> = None;
    let hook = std::panic::take_hook();
    std::panic::set_hook(Box::new(|_| {}));
    for b in inputs.iter() {
        let r = std::panic::catch_unwind(|| PropertyValue::verif_read(Cursor::new(b.clone()), CodePage::Windows1252).is_ok());
        if r.is_err() {
            witness = Some(format!("PropertyValue::read panics on the bytes {:02x?}", b));
            break;
        }
    }
    std::panic::set_hook(hook);
    println!("OUT checked={}", inputs.len());
    println!("OUT differs={}", if witness.is_some() { 1 } else { 0 });
    if let Some(w) = witness {
        println!("OUT witness={}", w);
    }
}
