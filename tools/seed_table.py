#!/usr/bin/env python3
"""seed_table.py -- markdown table of /verif/seeded/*/meta.json (for DESIGN.md 6.6)"""
import json, os, glob, re
rows = []
for d in sorted(glob.glob("/verif/seeded/*/")):
    tag = os.path.basename(d.rstrip("/"))
    mp = os.path.join(d, "meta.json")
    if not os.path.exists(mp):
        rows.append((tag, "?", "", "no meta.json", ""))
        continue
    m = json.load(open(mp))
    files = ", ".join(os.path.basename(f) for f in m.get("files_changed", []))
    if m.get("status", "evaluated") != "evaluated" and not m.get("checks_run"):
        rows.append((tag, m["property"], files, "patch no longer applies (obsoleted by a later fix: commit)", ""))
        continue
    verdicts = []
    caught = []
    for c, r in sorted(m.get("checks_run", {}).items()):
        verdicts.append("%s: %s" % (c, {0: "passes (missed)", 1: "VIOLATION", 2: "inconclusive"}.get(r.get("exit"), r.get("exit"))))
        caught += ["%s.%s" % (c, x) for x in r.get("violating_harnesses_or_laws", [])]
    note = m.get("note", "")
    rows.append((tag, m["property"], files, "; ".join(verdicts) + ((" -- " + note) if note else ""), ", ".join(sorted(set(caught)))[:160]))
print("| seed | property | files changed | checks run on the patched tree | caught by |")
print("|---|---|---|---|---|")
for r in rows:
    print("| %s | %s | %s | %s | %s |" % r)
det = sum(1 for r in rows if "VIOLATION" in r[3])
print()
print("%d seeds; %d detected (exit 1 with a native-confirmed VIOLATION), %d missed or inconclusive, %d obsolete." % (
    len(rows), det, sum(1 for r in rows if "VIOLATION" not in r[3] and "obsolete" not in r[3] and "no meta" not in r[3]), sum(1 for r in rows if "obsolete" in r[3])))
