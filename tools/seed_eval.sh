#!/bin/bash
# seed_eval.sh <PROP-ID> <dir with patch.diff + seeded_demo.rs> [check ids...]
# 1. confirm in a scratch worktree of /repo HEAD: suite green with the patch, demo fails with it, passes without
# 2. run the property's check(s) against the patched worktree (VERIF_REPO), evidence/replays redirected
set -u
ID=$1; SRC=$2; shift; shift
CHECKS=${@:-$ID}
TAG=$(basename $SRC)
WT=/tmp/sv_$TAG
OUT=/verif/.work/seedeval_$TAG
rm -rf $OUT; mkdir -p $OUT
git -C /repo worktree remove --force $WT 2>/dev/null
git -C /repo worktree add -q --detach $WT HEAD || exit 3
export CARGO_NET_OFFLINE=true CARGO_TARGET_DIR=$WT/target
cp $SRC/seeded_demo.rs $WT/tests/seeded_demo.rs
( cd $WT && cargo test --offline --test seeded_demo > $OUT/demo_without.log 2>&1 ); W=$?
( cd $WT && git apply $SRC/patch.diff ) || { echo "patch does not apply"; git -C /repo worktree remove --force $WT; exit 3; }
( cd $WT && cargo test --offline --test seeded_demo > $OUT/demo_with.log 2>&1 ); D=$?
mv $WT/tests/seeded_demo.rs $OUT/
( cd $WT && cargo test --workspace --offline > $OUT/suite_with.log 2>&1 ); S=$?
echo "demo_without_patch_exit=$W (want 0)  demo_with_patch_exit=$D (want !=0)  suite_with_patch_exit=$S (want 0)" | tee $OUT/confirm.txt
rm -rf $WT/target
for C in $CHECKS; do
  ( cd /verif && VERIF_REPO=$WT VERIF_WORK=/verif/.work/seedwork_$TAG VERIF_EVIDENCE_DIR=$OUT/evidence VERIF_REPLAY_DIR=$OUT/replays ./check $C ${SEED_ONLY:+--only $SEED_ONLY} > $OUT/check_$C.out 2>&1; echo "exit=$?" >> $OUT/check_$C.out; [ -n "${SEED_ONLY:-}" ] && echo "restricted_to=--only $SEED_ONLY" >> $OUT/check_$C.out )
  echo "--- check $C:"; grep -E "VIOLATION|KNOWN-FINDING|INCONCLUSIVE|property=|exit=" $OUT/check_$C.out | cut -c1-300
done
git -C /repo worktree remove --force $WT
rm -rf /verif/.work/seedwork_$TAG
