#!/bin/bash
cd /verif
run() { tag=$1; pid=${tag%%-*}; shift; also=""; [ -f seeded/$tag/also.txt ] && also=$(cat seeded/$tag/also.txt)
  "$@" tools/seed_eval.sh $pid /verif/seeded/$tag $pid $also > .work/seedeval_$tag.txt 2>&1
  python3 tools/seed_meta.py /verif/seeded/$tag $pid >> .work/seedeval_summary3.txt 2>&1; }
: > .work/seedeval_summary3.txt
for t in C13-r6 C16-r6 C18-r6 C03-r6; do run $t env SEED_ONLY=mir; done
for t in C09-r6 C17-r6 C14-r6 C02-r6; do run $t env; done
echo DONE >> .work/seedeval_summary3.txt
