#!/bin/bash
# re-evaluate every seed under /verif/seeded against the property's check (plus extra checks listed in seeded/<id>/also.txt)
cd /verif
for d in seeded/*/; do
  tag=$(basename $d); pid=${tag%%-*}
  also=""; [ -f $d/also.txt ] && also=$(cat $d/also.txt)
  tools/seed_eval.sh $pid /verif/seeded/$tag $pid $also > .work/seedeval_$tag.txt 2>&1
  python3 tools/seed_meta.py /verif/seeded/$tag $pid >> .work/seedeval_summary.txt 2>&1
done
