#!/bin/bash
cd /verif
run() { tag=$1; pid=${tag%%-*}; shift; also=""; [ -f seeded/$tag/also.txt ] && also=$(cat seeded/$tag/also.txt)
  "$@" tools/seed_eval.sh $pid /verif/seeded/$tag $pid $also > .work/seedeval_$tag.txt 2>&1
  python3 tools/seed_meta.py /verif/seeded/$tag $pid >> .work/seedeval_summary5.txt 2>&1; }
: > .work/seedeval_summary5.txt
for t in C03-r7 C04-r7 C05-r7 C11-r7 C12-r7 C16-r7 C20-r7; do run $t env SEED_ONLY=mir; done
run C07-r7 env
echo DONE >> .work/seedeval_summary5.txt
