#!/bin/bash
cd /verif
run() { tag=$1; pid=${tag%%-*}; shift; also=""; [ -f seeded/$tag/also.txt ] && also=$(cat seeded/$tag/also.txt)
  "$@" tools/seed_eval.sh $pid /verif/seeded/$tag $pid $also > .work/seedeval_$tag.txt 2>&1
  python3 tools/seed_meta.py /verif/seeded/$tag $pid >> .work/seedeval_summary4.txt 2>&1; }
: > .work/seedeval_summary4.txt
for t in C09-r6 C02-r6; do run $t env SEED_ONLY=mir; done
echo DONE >> .work/seedeval_summary4.txt
