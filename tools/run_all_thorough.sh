#!/bin/bash
# run every registered quick check against /repo, one after the other; summary in .work/allthorough.txt
cd /verif
: > .work/allthorough.txt
for id in $(python3 -c "import json;m=json.load(open('MANIFEST.json'));print(' '.join(sorted(c['property_id'] for c in m['checks'])))"); do
  s=$(date +%s)
  ./check $id --tier thorough > .work/allthorough_$id.out 2>&1; rc=$?
  e=$(date +%s)
  echo "$id exit=$rc wall=$((e-s))s $(grep -E '^property=' .work/allthorough_$id.out | tail -1)" >> .work/allthorough.txt
  grep -E "VIOLATION|INCONCLUSIVE|KNOWN-FINDING" .work/allthorough_$id.out | cut -c1-300 >> .work/allthorough.txt
done
echo DONE >> .work/allthorough.txt
