#!/bin/bash
# mutcheck.sh <PROP> <only-filter-or-> <python-edit-script>   : apply an edit to a scratch worktree and run the check against it
PID=$1; ONLY=$2; ED=$3; TAG=${4:-mut$$}
WT=/tmp/mc_$TAG
git -C /repo worktree remove --force $WT 2>/dev/null
git -C /repo worktree add -q --detach $WT HEAD || exit 3
( cd $WT && python3 $ED ) || { echo "edit failed"; git -C /repo worktree remove --force $WT; exit 3; }
( cd $WT && git diff --stat | tail -1 )
O=""; [ "$ONLY" != "-" ] && O="--only $ONLY"
( cd /verif && VERIF_REPO=$WT VERIF_WORK=/verif/.work/mcw_$TAG VERIF_EVIDENCE_DIR=/verif/.work/mcw_$TAG/ev VERIF_REPLAY_DIR=/verif/.work/mcw_$TAG/rp ./check $PID $O 2>&1 | grep -E "VIOLATION|KNOWN|INCONCL|property=|ENGINE" | cut -c1-400; )
git -C /repo worktree remove --force $WT
rm -rf /verif/.work/mcw_$TAG
