#!/bin/bash
# run_seed_only.sh <PROP> <seed dir> <only>   : apply seed patch to scratch worktree, run check --only
PID=$1; SRC=$2; ONLY=$3; TAG=so_$(basename $SRC)
WT=/tmp/$TAG
git -C /repo worktree remove --force $WT 2>/dev/null
git -C /repo worktree add -q --detach $WT HEAD || exit 3
( cd $WT && git apply $SRC/patch.diff ) || { echo "patch does not apply"; git -C /repo worktree remove --force $WT; exit 3; }
O=""; [ "$ONLY" != "-" ] && O="--only $ONLY"
( cd /verif && VERIF_REPO=$WT VERIF_WORK=/verif/.work/w_$TAG VERIF_EVIDENCE_DIR=/verif/.work/w_$TAG/ev VERIF_REPLAY_DIR=/verif/.work/w_$TAG/rp ./check $PID $O 2>&1 | grep -E "VIOLATION|KNOWN|INCONCL|property=|ENGINE" | cut -c1-400; )
git -C /repo worktree remove --force $WT
rm -rf /verif/.work/w_$TAG
