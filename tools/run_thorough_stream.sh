#!/bin/bash
# run_thorough_stream.sh <tag> <ids...> : thorough tier for the given checks, one after the other
cd /verif; tag=$1; shift
: > .work/thorough_$tag.txt
for id in "$@"; do
  s=$(date +%s); VERIF_MAX_PAR=7 VERIF_MEM_BUDGET_GB=28 ./check $id --tier thorough > .work/thorough_${tag}_$id.out 2>&1; rc=$?; e=$(date +%s)
  echo "$id exit=$rc wall=$((e-s))s $(grep -E '^property=' .work/thorough_${tag}_$id.out | tail -1)" >> .work/thorough_$tag.txt
  grep -E "VIOLATION|INCONCLUSIVE" .work/thorough_${tag}_$id.out | cut -c1-300 >> .work/thorough_$tag.txt
done
echo DONE >> .work/thorough_$tag.txt
