#!/usr/bin/env python3
"""seed_meta.py <seed-dir> <property> -- write meta.json from the latest seed_eval outputs."""
import json, os, re, sys
d, pid = sys.argv[1], sys.argv[2]
tag = os.path.basename(d.rstrip("/"))
ev = "/verif/.work/seedeval_%s" % tag
confirm = open(os.path.join(ev, "confirm.txt")).read().strip() if os.path.exists(os.path.join(ev, "confirm.txt")) else ""
checks = {}
for fn in sorted(os.listdir(ev)) if os.path.isdir(ev) else []:
    m = re.match(r"check_(C\d+)\.out", fn)
    if m:
        txt = open(os.path.join(ev, fn)).read()
        viol = re.findall(r"VIOLATION property=\S+ replay=\S*/(\S+)\.txt", txt)
        ex = re.search(r"exit=(\d+)", txt)
        ro = re.search(r"restricted_to=(.*)", txt)
        checks[m.group(1)] = {"exit": int(ex.group(1)) if ex else None, "violating_harnesses_or_laws": viol, "restricted_to": ro.group(1) if ro else None,
                              "summary": [l for l in txt.splitlines() if l.startswith("property=") or l.startswith("INCONCLUSIVE")][:6]}
notes = open(os.path.join(d, "notes.md")).read()
patch = open(os.path.join(d, "patch.diff")).read()
files = sorted(set(re.findall(r"^\+\+\+ b/(\S+)", patch, re.M)))
detected = any(c["exit"] == 1 for c in checks.values())
status = "evaluated" if checks else "not evaluated: patch.diff no longer applies to the current /repo HEAD (the code it changes was rewritten by a later fix: commit)"
meta = {
    "seed": tag, "property": pid, "origin": "independent sub-agent given only the property text and a scratch worktree",
    "files_changed": files,
    "needs_to_manifest": notes.split("\n\n")[1][:1200] if "\n\n" in notes else notes[:1200],
    "confirmed_by_me": {"how": "tools/seed_eval.sh: fresh worktree of /repo HEAD; demo passes without the patch, fails with it; whole existing suite green with the patch", "result": confirm},
    "checks_run": checks,
    "detected": detected, "status": status, "repo_head": os.popen("git -C /repo log --format=%h -1").read().strip(),
}
json.dump(meta, open(os.path.join(d, "meta.json"), "w"), indent=1)
print(tag, ("detected" if detected else "MISSED") if checks else "NOT-APPLICABLE-PATCH", {k: v["exit"] for k, v in checks.items()})
