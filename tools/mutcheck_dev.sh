#!/bin/bash
# like mutcheck.sh but runs the DEV copy of the machinery (/verif/.work/dev)
PID=$1; ONLY=$2; ED=$3; TAG=${4:-mut$$}
WT=/tmp/mc_$TAG
git -C /repo worktree remove --force $WT 2>/dev/null
git -C /repo worktree add -q --detach $WT HEAD || exit 3
( cd $WT && if [ -d "$ED" ]; then git apply $ED/patch.diff; else python3 $ED; fi ) || { echo "edit failed"; git -C /repo worktree remove --force $WT; exit 3; }
O=""; [ "$ONLY" != "-" ] && O="--only $ONLY"
( cd /verif/.work/dev && VERIF_REPO=$WT VERIF_WORK=/verif/.work/mcw_$TAG VERIF_EVIDENCE_DIR=/verif/.work/mcw_$TAG/ev VERIF_REPLAY_DIR=/verif/.work/mcw_$TAG/rp ./check $PID $O 2>&1 | grep -E "VIOLATION|KNOWN|INCONCL|property=|ENGINE" | cut -c1-400; )
git -C /repo worktree remove --force $WT
rm -rf /verif/.work/mcw_$TAG
