#!/bin/bash
# run every registered quick check against /repo, one after the other; summary in .work/allquick.txt
cd /verif
: > .work/allquick.txt
for id in $(python3 -c "import json;m=json.load(open('MANIFEST.json'));print(' '.join(sorted(c['property_id'] for c in m['checks'])))"); do
  s=$(date +%s)
  ./check $id > .work/allquick_$id.out 2>&1; rc=$?
  e=$(date +%s)
  echo "$id exit=$rc wall=$((e-s))s $(grep -E '^property=' .work/allquick_$id.out | tail -1)" >> .work/allquick.txt
  grep -E "VIOLATION|INCONCLUSIVE|KNOWN-FINDING" .work/allquick_$id.out | cut -c1-300 >> .work/allquick.txt
done
echo DONE >> .work/allquick.txt
