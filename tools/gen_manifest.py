#!/usr/bin/env python3
"""Regenerate /verif/MANIFEST.json from vlib/registry.py (single source of truth)."""
import json, os, sys
HERE = os.path.dirname(os.path.dirname(os.path.abspath(__file__)))
sys.path.insert(0, HERE)
from vlib import registry

import subprocess
HOOK_COMMITS = [l.split()[0] for l in subprocess.run(["git", "-C", "/repo", "log", "--format=%h %s"], capture_output=True, text=True).stdout.splitlines()
                if l.split(" ", 1)[1].startswith("verif hook:")][::-1]
NA = registry.NOT_APPLICABLE
props = [json.loads(l)["id"] for l in open(os.path.join(HERE, "properties.jsonl"))]
checks = []
for pid in props:
    if pid not in registry.PROPS:
        continue
    s = registry.PROPS[pid]
    checks.append({
        "property_id": pid,
        "quick_cmd": "./check %s --tier quick" % pid,
        "thorough_cmd": "./check %s --tier thorough" % pid,
        "evidence_file": "/verif/evidence/%s.json" % pid,
        "replay_cmd_template": "cat {path}",
        "engine": s.get("engine", "kani"),
        "level_claimed": {
            "category": s.get("level", "model_checking"),
            "text": s["claim"],
            "design_ref": "DESIGN.md section 2, " + pid,
        },
        "level_note": s["note"],
        "technique": s["technique"],
    })
na = []
for pid in props:
    if pid in registry.PROPS:
        continue
    na.append({"property_id": pid, "reason": NA.get(pid, "no check built yet at this commit (pending)")})
m = {
    "version": 1,
    "setup_cmd": "./setup.sh",
    "hooks": {
        "guard": "msi_verif (cargo feature of the msi crate, off by default)",
        "enable": "the harness crate /verif/kani includes /repo/src/internal by #[path] and defines a cargo feature of the same name (msi_verif, on by default there), so #[cfg(feature = \"msi_verif\")] items in the included sources are compiled in; /repo itself is never built with the feature by the checks",
        "baseline_off_cmd": "cd /repo && cargo test --workspace --no-fail-fast --offline",
        "source_commits": HOOK_COMMITS,
        "add_only": True,
    },
    "engines": [
        {"name": "kani", "path": "/verif/kani", "serves_properties": [p for p in props if p in registry.PROPS and registry.PROPS[p].get("kani")],
         "kind_free_text": "Kani 0.68 / CBMC 6.11 (CaDiCaL) bounded model checking of the real rust-msi sources, #[kani::proof] harnesses over kani::any() inputs, unwinding assertions on"},
        {"name": "mir-smt", "path": "/verif/vlib/mir_engine.py", "serves_properties": [p for p in props if p in registry.PROPS and registry.PROPS[p].get("mir")],
         "kind_free_text": "symbolic execution of the nightly compiler's MIR dump of rust-msi functions (loops unrolled to a stated bound, calls leaving the crate as arbitrary-result events, iterators modelled by collection identity and position) into SMT-LIB2 (integers with range side conditions), decided by z3 5.1 and cvc5; counterexamples replayed natively through the public API before they are reported"},
    ],
    "checks": checks,
    "not_applicable": na,
    "notes": "Solver-based checking only. Exit 2 from a check means inconclusive (timeout/oom/unwinding/encoding), never success. See DESIGN.md.",
}
json.dump(m, open(os.path.join(HERE, "MANIFEST.json"), "w"), indent=1)
print("checks:", [c["property_id"] for c in checks], "n/a:", [n["property_id"] for n in na])
