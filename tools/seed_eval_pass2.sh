#!/bin/bash
# second pass: seeds added or affected after the main pass started
cd /verif
run() { tag=$1; pid=${tag%%-*}; shift; also=""; [ -f seeded/$tag/also.txt ] && also=$(cat seeded/$tag/also.txt)
  "$@" tools/seed_eval.sh $pid /verif/seeded/$tag $pid $also > .work/seedeval_$tag.txt 2>&1
  python3 tools/seed_meta.py /verif/seeded/$tag $pid >> .work/seedeval_summary2.txt 2>&1; }
: > .work/seedeval_summary2.txt
for t in C01-r5 C08-r5 C10-r5 C15-r5 C15-r2 C19-r5 C20-r5; do SEED_ONLY=mir run $t env SEED_ONLY=mir; done
for t in C06-r5 C07-r5 C06-r2; do run $t env; done
echo DONE >> .work/seedeval_summary2.txt
